// The worker: a test binary (testing/synctest needs a *testing.T) that executes simulated
// runs on behalf of cmd/vcheck and prints one JSON line per run.
package simtest

import (
	"bufio"
	"encoding/json"
	"fmt"
	"os"
	"testing"
	"time"

	"verif/dsim"
	"verif/props"
)

// Job is what the driver asks a worker to do.
type Job struct {
	Prop      string   `json:"prop"`
	Mode      string   `json:"mode"` // gen | replay
	Seeds     []uint64 `json:"seeds,omitempty"`
	WantTrace bool     `json:"want_trace,omitempty"`
	WantHist  bool     `json:"want_hist,omitempty"`
}

// Cand is one replay candidate read from stdin in replay mode.
type Cand struct {
	ID      int      `json:"id"`
	Seed    uint64   `json:"seed"`
	Choices []uint32 `json:"choices"`
}

// RunOut is one line of output.
type RunOut struct {
	ID         int            `json:"id"`
	Seed       uint64         `json:"seed"`
	Steps      int            `json:"steps"`
	SimNS      int64          `json:"sim_ns"`
	WallUS     int64          `json:"wall_us"`
	Strategy   string         `json:"strategy"`
	SchedHash  string         `json:"sched_hash"`
	Digest     string         `json:"digest"`
	Interleave int            `json:"interleave"`
	MaxRun     int            `json:"max_runnable"`
	Tasks      int            `json:"tasks"`
	Stalls     int            `json:"stalls"`
	Nontrivial bool           `json:"nontrivial"`
	Failures   []dsim.Failure `json:"failures,omitempty"`
	EngineErr  []string       `json:"engine_err,omitempty"`
	Probes     map[string]int `json:"probes,omitempty"`
	Live       []string       `json:"live,omitempty"`
	NChoices   int            `json:"n_choices"`
	Choices    []uint32       `json:"choices,omitempty"`
	Kinds      string         `json:"kinds,omitempty"`
	History    []string       `json:"history,omitempty"`
}

func runOne(t *testing.T, p *props.Prop, id int, seed uint64, replay []uint32, isReplay bool, job *Job) RunOut {
	t0 := time.Now()
	cfg := dsim.Config{Seed: seed, Replay: replay, IsReplay: isReplay, MaxSteps: p.MaxSteps, Horizon: p.Horizon, Strategy: -1}
	res := dsim.Run(t, cfg, p.Body)
	out := RunOut{ID: id, Seed: seed, Steps: res.Steps, SimNS: int64(res.SimTime), WallUS: time.Since(t0).Microseconds(),
		Strategy: res.Strategy, SchedHash: fmt.Sprintf("%016x", res.SchedHash), Digest: props.Digest(&res),
		Interleave: res.Interleave, MaxRun: res.MaxRunnable, Tasks: res.Tasks, Stalls: res.Stalls,
		Failures: res.Failures, EngineErr: res.EngineErr, Probes: res.Probes, NChoices: len(res.Trace)}
	if res.Horizon || res.StepLimit {
		what := "simulated-time horizon reached"
		if res.StepLimit {
			what = "step budget exhausted"
		}
		msg := fmt.Sprintf("%s before the scenario finished (steps=%d, sim time=%v); live tasks: %v", what, res.Steps, res.SimTime, res.Live)
		if p.Race {
			// the data-race workload mutes every oracle: only the race detector's reports count
		} else if p.HangOracle != "" {
			out.Failures = append(out.Failures, dsim.Failure{Oracle: p.HangOracle, Msg: msg})
		} else {
			out.EngineErr = append(out.EngineErr, msg)
		}
	}
	if p.Nontrivial != nil {
		out.Nontrivial = p.Nontrivial(&res)
	} else {
		out.Nontrivial = res.Steps > 1
	}
	if len(out.Failures) > 0 || job.WantTrace || isReplay {
		out.Choices = res.Trace
		out.Kinds = string(res.Kinds)
	}
	if job.WantHist {
		for _, r := range res.History {
			out.History = append(out.History, fmt.Sprintf("%06d %-8s %12v %-14s %s %v", r.Step, r.Task, r.T, r.Kind, r.S, r.I))
		}
		out.Live = res.Live
	}
	return out
}

func TestWorker(t *testing.T) {
	js := os.Getenv("VERIF_JOB")
	if js == "" {
		t.Skip("no VERIF_JOB")
	}
	var job Job
	if err := json.Unmarshal([]byte(js), &job); err != nil {
		fmt.Println("WORKER-ERROR bad job:", err)
		os.Exit(2)
	}
	p := props.Get(job.Prop)
	if p == nil {
		fmt.Println("WORKER-ERROR unknown property", job.Prop)
		os.Exit(2)
	}
	w := bufio.NewWriterSize(os.Stdout, 1<<16)
	emit := func(o RunOut) {
		b, _ := json.Marshal(o)
		w.WriteString("RUN ")
		w.Write(b)
		w.WriteString("\n")
		w.Flush()
	}
	switch job.Mode {
	case "gen":
		for i, seed := range job.Seeds {
			emit(runOne(t, p, i, seed, nil, false, &job))
		}
	case "replay":
		sc := bufio.NewScanner(os.Stdin)
		sc.Buffer(make([]byte, 1<<20), 1<<28)
		for sc.Scan() {
			var c Cand
			if err := json.Unmarshal(sc.Bytes(), &c); err != nil {
				fmt.Println("WORKER-ERROR bad candidate:", err)
				os.Exit(2)
			}
			if c.Choices == nil {
				c.Choices = []uint32{}
			}
			emit(runOne(t, p, c.ID, c.Seed, c.Choices, true, &job))
		}
	default:
		fmt.Println("WORKER-ERROR unknown mode", job.Mode)
		os.Exit(2)
	}
	fmt.Println("WORKER-DONE")
}

// TestDoc prints the documentation of a property (rule, real and stubbed components).
func TestDoc(t *testing.T) {
	id := os.Getenv("VERIF_DOC")
	if id == "" {
		t.Skip("no VERIF_DOC")
	}
	p := props.Get(id)
	if p == nil {
		os.Exit(2)
	}
	b, _ := json.Marshal(map[string]any{"Rule": p.Rule, "Real": p.Real, "Stub": p.Stub})
	fmt.Println("DOC " + string(b))
}
