#!/usr/bin/env python3
"""Run every kept seeded change against the quick check of its property (and, when that stays
green, against the fallback checks named below). Writes seeded/RESULTS.json.
usage: mutsweep.py [name-prefix]"""
import json, os, subprocess, sys, glob, time
RESULTS = os.environ.get("VERIF_SWEEP_OUT", "/verif/seeded/RESULTS.json")  # a second sweep with another VERIF_SEED writes elsewhere
fallback = {  # changes whose violation is only observable through another property's check
 "C11-m3": ["C13"], "C11-w2m3": ["C13"],   # Channel.write without its default branch: the node blocks (C13)
 "C02-w3m2": ["C15"], "C16-w3m2": ["C15"], # state shared between goroutines: a data race (C15)
 "C09-w4m2": ["C15"], "C16-w4m2": ["C15"], # the same: package-level scratch buffer, shared prototype message
 "C10-w4m1": ["C14"],                       # read deadline not armed afresh per call (C14's deadline oracle)
 "C10-w4m3": ["C14"], "C13-w4m1": ["C14"],  # read fault while the writer is blocked in a deadline-less write: no close event (C14)
 "C01-w5m1": ["C20"],                       # a telemetry-log writer change (stale bytes after a refused entry): C20's format oracle
 "C02-w5m2": ["C15"], "C06-w5m2": ["C15"],  # package-level scratch buffers: data races
 "C13-w5m2": ["C12", "C14"],                # the same change as C12-w5m1 (transport closed after waiting for the writer on the read-error path)
 "C15-w5m2": ["C11"],                       # writer not awaited after a read error: two writers on one custom transport (C11 whole-frames)
 "C08-w6m2": ["C15"],                       # one package-level checksum hasher: a data race
 "C09-w6m1": ["C14"], "C10-w6m1": ["C14"],  # broadcast SetDeadline instead of SetWriteDeadline: spontaneous read timeouts (C14 close-cause); C10 runs spin in the open/close storm
 "C09-w6m2": ["C11"],                       # writer awaited only for WriteTimeout after a read error: two writers on one custom transport
 "C10-w7m2": ["C15"],                       # a scratch buffer shared by all channels through the dialect: a data race
 "C11-w7m1": ["C08"],                       # forwarded frames re-encoded by the node's version (the tag message has no trailing zeros; C08 relay-valid)
 "C02-w9m2": ["C15"], "C06-w9m2": ["C15"], "C09-w9m1": ["C15"],  # wave 9: package-level scratch buffers again (checksum header, signature input, writer's marshal buffer)
 "C11-w9m1": ["C08"],                       # forwarded frames re-encoded by the node's version again
 "C01-w10m2": ["C08", "C05"],              # v1 frames of dialect messages ending in zero bytes: checksum recomputed over a v2-truncated payload (the reader side of C08)
 "C09-w8m1": ["C15"],                       # one package-level checksum hasher again: a data race
}
MATCH = os.environ.get("VERIF_SWEEP_MATCH", "")   # substring filter, e.g. -w9 for one wave
pref = sys.argv[1] if len(sys.argv) > 1 else ""
out = {}
if os.path.exists(RESULTS):
    out = json.load(open(RESULTS))
for d in sorted(glob.glob("/verif/seeded/*/")):
    name = os.path.basename(d.rstrip("/"))
    if not name.startswith(pref) or MATCH not in name or not os.path.exists(d + "patch.diff"):
        continue
    prop = name.split("-")[0]
    props = [prop]
    r = subprocess.run(["python3", "/verif/tools/mutcheck.py", d + "patch.diff", prop, name], stdout=subprocess.PIPE, stderr=subprocess.STDOUT)
    res = json.loads(r.stdout.decode().strip().splitlines()[-1])
    c = res["checks"].get(prop, {"exit": -1, "head": "not run"})
    entry = {"own_check": prop, "own_exit": c["exit"], "own_first": " / ".join([x for x in c["head"].splitlines() if x.strip()][:3])[:500], "caught_by": prop if c["exit"] == 1 else None, "own_failing_runs": c.get("failing_runs")}
    if c["exit"] != 1:
        for fb in fallback.get(name, []):
            r = subprocess.run(["python3", "/verif/tools/mutcheck.py", d + "patch.diff", fb, name], stdout=subprocess.PIPE, stderr=subprocess.STDOUT)
            res = json.loads(r.stdout.decode().strip().splitlines()[-1])
            c2 = res["checks"].get(fb, {"exit": -1, "head": ""})
            entry["fallback_" + fb] = {"exit": c2["exit"], "failing_runs": c2.get("failing_runs"), "first": " / ".join([x for x in c2["head"].splitlines() if x.strip()][:3])[:500]}
            if c2["exit"] == 1:
                entry["caught_by"] = fb
                break
    out[name] = entry
    json.dump(out, open(RESULTS, "w"), indent=1, sort_keys=True)
    print(name, entry["own_exit"], entry["caught_by"], flush=True)
