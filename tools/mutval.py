#!/usr/bin/env python3
"""Validate a delivered mutant in its own scratch worktree: patch applies and builds, the existing
suite passes with it, the demonstration fails with it and passes without it.
usage: mutval.py <deliver_dir> <name>   -> prints one JSON line"""
import json, os, subprocess, sys, shutil
d, name = sys.argv[1], sys.argv[2]
wt = "/tmp/mutv/" + name
env = dict(os.environ, GOFLAGS="-mod=mod", GOPROXY="off", GOSUMDB="off")
def sh(cmd, cwd=None, timeout=1500):
    try:
        r = subprocess.run(cmd, shell=True, cwd=cwd, env=env, stdout=subprocess.PIPE, stderr=subprocess.STDOUT, timeout=timeout)
        return r.returncode, r.stdout.decode(errors="replace")
    except subprocess.TimeoutExpired:
        return 124, "timeout"
def netns(cmd):
    return "unshare -n sh -c 'ip link set lo up; %s'" % cmd
res = {"name": name}
os.makedirs("/tmp/mutv", exist_ok=True)
sh("git -C /repo worktree remove --force %s" % wt)
rc, out = sh("git -C /repo worktree add --detach %s HEAD" % wt)
res["worktree"] = rc
meta = json.load(open(os.path.join(d, "meta.json")))
pkgdir = meta.get("demo_package_dir", ".").strip("/") or "."
demo_cmd = meta.get("demo_cmd", "")
rc, out = sh("git apply %s/patch.diff" % d, cwd=wt)
res["apply"] = rc
rc, out = sh("go build ./...", cwd=wt)
res["build"] = rc
suite = "go test -vet=off -count=1 . ./pkg/frame/... ./pkg/message/... ./pkg/streamwriter/... ./pkg/tlog/... ./pkg/x25/... ./pkg/dialect/... ./pkg/timednetconn/... ./pkg/conversion/... ./cmd/..."
ok = False
for attempt in range(3):   # the root package has a known flaky test (TestNodeRoute)
    rc, out = sh(netns(suite), cwd=wt)
    if rc == 0:
        ok = True
        break
res["suite_with_patch"] = "pass" if ok else "FAIL: " + out[-600:]
shutil.copy(os.path.join(d, "demo_test.go"), os.path.join(wt, pkgdir, "zz_demo_test.go"))
rc, out = sh(netns(demo_cmd), cwd=wt, timeout=900)
res["demo_with_patch"] = "fail" if rc != 0 else "PASS(unexpected)"
res["demo_out"] = out[-400:]
sh("git apply -R %s/patch.diff" % d, cwd=wt)
good = 0
for attempt in range(2):
    rc, out = sh(netns(demo_cmd), cwd=wt, timeout=900)
    if rc == 0:
        good += 1
res["demo_without_patch"] = "pass" if good == 2 else "FAIL(%d/2): %s" % (good, out[-300:])
sh("git -C /repo worktree remove --force %s" % wt)
res["valid"] = res["apply"] == 0 and res["build"] == 0 and ok and res["demo_with_patch"] == "fail" and good == 2
print(json.dumps(res))
