#!/usr/bin/env python3
"""Validate the deliverables of one wave of sub-agents (tools/mutval.py) and keep the valid ones
under /verif/seeded/<Cnn>-w<wave>m<i>/.
usage: mutingest.py <wave-dir> <wave-number> [Cnn ...]      e.g. mutingest.py /tmp/mut9 9 C11 C13"""
import json, os, subprocess, sys, glob, shutil
from concurrent.futures import ThreadPoolExecutor
wdir, wave = sys.argv[1], int(sys.argv[2])
only = sys.argv[3:]
jobs = []
for d in sorted(glob.glob(wdir + "/C*/_deliver/m*/")):
    prop = d.split("/")[-4]
    if only and prop not in only:
        continue
    i = d.rstrip("/").split("/")[-1][1:]
    name = "%s-w%dm%s" % (prop, wave, i)
    if os.path.exists("/verif/seeded/" + name) or not os.path.exists(d + "patch.diff") or not os.path.exists(d + "meta.json") or not os.path.exists(d + "demo_test.go"):
        continue
    jobs.append((d, name, prop))
def run(j):
    d, name, prop = j
    r = subprocess.run(["python3", "/verif/tools/mutval.py", d, name], stdout=subprocess.PIPE, stderr=subprocess.STDOUT)
    try:
        res = json.loads(r.stdout.decode().strip().splitlines()[-1])
    except Exception:
        res = {"name": name, "valid": False, "raw": r.stdout.decode()[-500:]}
    return j, res
with ThreadPoolExecutor(max_workers=4) as ex:
    for (d, name, prop), res in ex.map(run, jobs):
        print(name, "valid" if res.get("valid") else "INVALID " + json.dumps(res)[:700], flush=True)
        if not res.get("valid"):
            continue
        t = "/verif/seeded/" + name + "/"
        os.makedirs(t, exist_ok=True)
        shutil.copy(d + "patch.diff", t + "patch.diff")
        shutil.copy(d + "demo_test.go", t + "demo_test.go.txt")
        m = json.load(open(d + "meta.json"))
        m["property"] = prop
        m["id"] = name
        m["wave"] = wave
        m["confirmed_by_me"] = {
            "how": "tools/mutval.py in a scratch worktree of /repo (removed afterwards): git apply, go build ./..., existing suite in a private network namespace, demonstration with and without the patch",
            "patch_applies": True, "builds": True, "existing_suite_with_patch": "pass",
            "demo_with_patch": "fail", "demo_without_patch": "pass"}
        json.dump(m, open(t + "meta.json", "w"), indent=1)
