#!/usr/bin/env python3
"""Run the quick check of a property against a seeded change: apply the patch to /repo, run the
check, revert. usage: mutcheck.py <patch.diff> <property> <name> [more properties...]"""
import json, os, subprocess, sys, time
patch, name = sys.argv[1], sys.argv[3]
props = [sys.argv[2]] + sys.argv[4:]
env = dict(os.environ, VERIF_SHRINK_SEC=os.environ.get("VERIF_SHRINK_SEC", "15"), VERIF_MAX_REPORT="1")
assert subprocess.run("git -C /repo status --porcelain", shell=True, stdout=subprocess.PIPE).stdout.strip() == b"", "/repo is not clean"
res = {"name": name, "checks": {}}
r = subprocess.run("git -C /repo apply %s" % patch, shell=True)
res["apply"] = r.returncode
try:
    if r.returncode == 0:
        for p in props:
            t0 = time.time()
            r = subprocess.run("/verif/check %s quick" % p, shell=True, cwd="/verif", env=env, stdout=subprocess.PIPE, stderr=subprocess.STDOUT)
            out = r.stdout.decode(errors="replace")
            lines = [l for l in out.splitlines() if not l.startswith("build:")]
            nfail = None
            try:
                nfail = json.load(open("/verif/evidence/%s.json" % p)).get("violations")
            except Exception:
                pass
            res["checks"][p] = {"exit": r.returncode, "wall_s": round(time.time() - t0, 1), "head": "\n".join(lines[:6])[:1500], "failing_runs": nfail}
finally:
    subprocess.run("git -C /repo checkout -- .", shell=True)
print(json.dumps(res), flush=True)
