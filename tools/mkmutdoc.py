#!/usr/bin/env python3
"""Render seeded/RESULTS.json + seeded/*/meta.json as the markdown table of DESIGN.md section 12
(between the markers <!-- MUTANTS-BEGIN --> and <!-- MUTANTS-END -->)."""
import json, glob, os, re
res = json.load(open("/verif/seeded/RESULTS.json"))
rows = []
for d in sorted(glob.glob("/verif/seeded/*/")):
    name = os.path.basename(d.rstrip("/"))
    if name not in res:
        continue
    m = json.load(open(d + "meta.json"))
    r = res[name]
    summary = re.sub(r"\s+", " ", m.get("summary", "")).replace("|", "/")
    if len(summary) > 230:
        summary = summary[:227] + "..."
    first = r.get("own_first", "")
    oracle = ""
    mo = re.search(r"oracle=([\w-]+)", first)
    if r.get("caught_by") and r["caught_by"] != r["own_check"]:
        fb = r.get("fallback_" + r["caught_by"], {}).get("first", "")
        mo = re.search(r"oracle=([\w-]+)", fb)
    if mo:
        oracle = mo.group(1)
    caught = r.get("caught_by") or "**missed**"
    rows.append("| %s | %s | %s | %s |" % (name, summary, caught, oracle))
n = len(rows)
own = sum(1 for k, r in res.items() if r.get("caught_by") == r["own_check"])
other = sum(1 for k, r in res.items() if r.get("caught_by") and r.get("caught_by") != r["own_check"])
missed = n - own - other
hdr = "%d seeded changes were run against the final checks (quick tier, VERIF_SEED=1): %d are caught by the check of the property they were written against, %d by the check of another property (noted), %d are missed.\n\n| id | change (author's summary) | caught by check | oracle |\n|---|---|---|---|\n" % (n, own, other, missed)
body = hdr + "\n".join(rows) + "\n"
p = "/verif/DESIGN.md"
s = open(p).read()
b, e = "<!-- MUTANTS-BEGIN -->", "<!-- MUTANTS-END -->"
if b in s:
    s = s[:s.index(b) + len(b)] + "\n" + body + s[s.index(e):]
else:
    s = s.replace("(filled in below)", b + "\n" + body + e)
open(p, "w").write(s)
print(n, own, other, missed)
