package dsim

import (
	"sort"
	"sync"
	"testing/synctest"
	"time"
	"unsafe"
)

// starvationBound is the longest a runnable task is passed over (in steps).
const starvationBound = 20000

type schedState struct {
	runnable []*task
	settle   []*task
	mwait    []*task
	pending  []req
}

func (s *Sim) horizon() time.Duration {
	if s.cfg.Horizon > 0 {
		return s.cfg.Horizon
	}
	return 24 * time.Hour
}

//go:norace
func (s *Sim) loop() {
	st := &schedState{}
	end := time.NewTimer(s.horizon())
	defer end.Stop()
	maxSteps := s.cfg.MaxSteps
	if maxSteps <= 0 {
		maxSteps = 1 << 20
	}
	for {
		synctest.Wait()
		s.current = nil
		s.drain(st)
		if s.mainDone {
			return
		}
		if s.steps >= maxSteps {
			s.stepLimitHit = true
			return
		}
		if len(st.runnable) == 0 {
			if len(st.settle) > 0 {
				// quiescent instant: release the lowest-id settler
				k := 0
				for i := range st.settle {
					if st.settle[i].id.less(&st.settle[k].id) {
						k = i
					}
				}
				st.runnable = append(st.runnable, st.settle[k])
				st.settle = append(st.settle[:k], st.settle[k+1:]...)
				continue
			}
			s.idles++
			if !s.waitIdle(st, end.C, nil) {
				s.horizonHit = true
				return
			}
			continue
		}
		sort.Slice(st.runnable, func(i, j int) bool { return st.runnable[i].id.less(&st.runnable[j].id) })
		newborn := false
		if s.newbornLast {
			for _, t := range st.runnable {
				if t.site == "start" {
					newborn = true
				}
			}
		}
		// (a goroutine that has not begun to run is held back for a bounded number of steps of one
		// instant, never across a stall: start latency is scheduling noise, not simulated seconds)
		if s.stallPct > 0 && !newborn {
			v := s.draw(KStall, 1000, nil)
			if v >= 1000-s.stallPct {
				e := s.draw(KStall, 8, nil)
				d := time.Millisecond << (2 * uint(e))
				s.stalls++
				tm := time.NewTimer(d)
				stallStart := time.Now()
				ok := s.waitIdle(st, end.C, tm.C)
				tm.Stop()
				s.stallDur += time.Since(stallStart)
				if !ok {
					s.horizonHit = true
					return
				}
				continue
			}
		}
		n := len(st.runnable)
		if n > 1 {
			s.interl++
		}
		if n > s.maxRun {
			s.maxRun = n
		}
		k := s.draw(KSched, n, func() int {
			// bounded unfairness: a task that has been runnable for a very long time is released
			// (no real scheduler starves a goroutine for ever; zero-time busy loops in the system
			// under test must not hide the rest of the run)
			for i, t := range st.runnable {
				if s.steps-t.runnableSince > starvationBound {
					return i
				}
			}
			if s.newbornLast {
				// choose among the tasks that have run before, if there is one
				var old []*task
				var idx []int
				for i, t := range st.runnable {
					if t.site != "start" || s.steps-t.runnableSince > 300 {
						old = append(old, t)
						idx = append(idx, i)
					}
				}
				if len(old) > 0 && len(old) < len(st.runnable) {
					return idx[s.pick(old)]
				}
			}
			return s.pick(st.runnable)
		})
		tk := st.runnable[k]
		st.runnable = append(st.runnable[:k], st.runnable[k+1:]...)
		s.hashStep(tk)
		s.steps++
		s.last = tk
		s.current = tk
		raceDisable()
		tk.resume <- struct{}{}
		raceEnable()
	}
}

//go:norace
func (s *Sim) hashStep(t *task) {
	h := s.schedHash
	if h == 0 {
		h = 14695981039346656037
	}
	for i := 0; i < len(t.name); i++ {
		h = (h ^ uint64(t.name[i])) * 1099511628211
	}
	h = (h ^ '@') * 1099511628211
	for i := 0; i < len(t.site); i++ {
		h = (h ^ uint64(t.site[i])) * 1099511628211
	}
	s.schedHash = h
}

// pick implements the scheduling strategies (generation mode only).
//
//go:norace
func (s *Sim) pick(run []*task) int {
	n := len(run)
	switch s.strat {
	case StratSticky:
		if s.last != nil && s.srng.intn(100) < s.stickyP {
			for i, t := range run {
				if t == s.last {
					return i
				}
			}
		}
		return s.srng.intn(n)
	case StratPCT:
		for _, c := range s.pctChanges {
			if c == s.steps && s.last != nil {
				s.last.prio = -int64(s.steps) - 1 // drop below everything
			}
		}
		best := 0
		for i, t := range run {
			if t.prio > run[best].prio {
				best = i
			}
		}
		return best
	case StratStarve:
		if s.steps >= s.starveFrom && s.steps < s.starveFrom+s.starveLen {
			if s.victim == nil {
				s.victim = run[s.srng.intn(n)]
			}
			if n > 1 {
				k := s.srng.intn(n - 1)
				for i, t := range run {
					if t == s.victim {
						if k >= i {
							k++
						}
						break
					}
				}
				return k
			}
		}
		return s.srng.intn(n)
	case StratRoundRobin:
		if s.last != nil {
			for i, t := range run {
				if s.last.id.less(&t.id) {
					return i
				}
			}
		}
		return 0
	}
	return s.srng.intn(n)
}

//go:norace
func (s *Sim) apply(st *schedState, r req) {
	switch r.kind {
	case rPark:
		r.t.runnableSince = s.steps
		st.runnable = append(st.runnable, r.t)
	case rSettle:
		st.settle = append(st.settle, r.t)
	case rExit:
		s.live--
	case rSpawn:
		s.live++
		r.t.prio = int64(s.srng.next() >> 2)
		s.tasks = append(s.tasks, r.t)
	case rMutexWait:
		r.t.waitMu = r.mu
		st.mwait = append(st.mwait, r.t)
	}
}

//go:norace
func (s *Sim) flush(st *schedState) {
	// waits first, wakes last: the outcome does not depend on arrival order within a step
	for _, r := range st.pending {
		if r.kind != rMutexWake {
			s.apply(st, r)
		}
	}
	for _, r := range st.pending {
		if r.kind == rMutexWake {
			keep := st.mwait[:0]
			for _, t := range st.mwait {
				if t.waitMu == r.mu {
					t.waitMu = nil
					st.runnable = append(st.runnable, t)
				} else {
					keep = append(keep, t)
				}
			}
			st.mwait = keep
		}
	}
	st.pending = st.pending[:0]
}

//go:norace
func (s *Sim) drain(st *schedState) {
	raceDisable()
	for {
		select {
		case r := <-s.reqs:
			st.pending = append(st.pending, r)
			continue
		default:
		}
		break
	}
	raceEnable()
	s.flush(st)
}

// waitIdle blocks the root until a task reports or a timer fires; simulated time advances.
//
//go:norace
func (s *Sim) waitIdle(st *schedState, end <-chan time.Time, stall <-chan time.Time) bool {
	raceDisable()
	defer raceEnable()
	select {
	case r := <-s.reqs:
		st.pending = append(st.pending, r)
		return true
	case <-stall:
		return true
	case <-end:
		return false
	}
}

// ---------------------------------------------------------------------------
// mutexes: a contended lock is an engine park, never a real blocked Lock (synctest does not
// treat a mutex wait as durable).

//go:norace
func mutexWait(site string, key unsafe.Pointer) {
	t := self()
	park(t, site, rMutexWait, (*sync.Mutex)(key))
}

//go:norace
func mutexWake(key unsafe.Pointer) {
	cur.send(req{kind: rMutexWake, mu: (*sync.Mutex)(key)})
}

// MutexLock replaces (*sync.Mutex).Lock.
func MutexLock(site string, m *sync.Mutex) {
	Yield(site)
	for !m.TryLock() {
		mutexWait(site, unsafe.Pointer(m))
	}
}

// MutexUnlock replaces (*sync.Mutex).Unlock.
func MutexUnlock(site string, m *sync.Mutex) {
	m.Unlock()
	mutexWake(unsafe.Pointer(m))
}

// MutexTryLock replaces (*sync.Mutex).TryLock.
func MutexTryLock(site string, m *sync.Mutex) bool {
	Yield(site)
	return m.TryLock()
}

// RWMutexLock replaces (*sync.RWMutex).Lock.
func RWMutexLock(site string, m *sync.RWMutex) {
	Yield(site)
	for !m.TryLock() {
		mutexWait(site, unsafe.Pointer(m))
	}
}

// RWMutexUnlock replaces (*sync.RWMutex).Unlock.
func RWMutexUnlock(site string, m *sync.RWMutex) {
	m.Unlock()
	mutexWake(unsafe.Pointer(m))
}

// RWMutexRLock replaces (*sync.RWMutex).RLock.
func RWMutexRLock(site string, m *sync.RWMutex) {
	Yield(site)
	for !m.TryRLock() {
		mutexWait(site, unsafe.Pointer(m))
	}
}

// RWMutexRUnlock replaces (*sync.RWMutex).RUnlock.
func RWMutexRUnlock(site string, m *sync.RWMutex) {
	m.RUnlock()
	mutexWake(unsafe.Pointer(m))
}
