// Package dsim is a cooperative deterministic scheduler that runs inside a testing/synctest
// bubble. Every goroutine of the system under test and of the harness is a task; a task
// parks at every synchronisation point (Yield) and the root goroutine releases exactly one
// parked task per step, chosen from a seeded choice stream. The synctest bubble supplies the
// fake clock and quiescence detection (synctest.Wait).
//
// Race-detector invisibility: all engine functions are //go:norace, engine hand-offs are
// bracketed by raceDisable/raceEnable, and engine state that crosses goroutines never goes
// through code the race runtime instruments (no maps, no append on shared slices, no fmt).
package dsim

import (
	"fmt"
	"runtime"
	"sort"
	"sync"
	"testing"
	"testing/synctest"
	"time"
)

// ---------------------------------------------------------------------------
// PRNG (splitmix64), engine-owned

type rng struct{ x uint64 }

//go:norace
func (r *rng) next() uint64 {
	r.x += 0x9e3779b97f4a7c15
	z := r.x
	z = (z ^ (z >> 30)) * 0xbf58476d1ce4e5b9
	z = (z ^ (z >> 27)) * 0x94d049bb133111eb
	return z ^ (z >> 31)
}

//go:norace
func (r *rng) intn(n int) int {
	if n <= 1 {
		return 0
	}
	return int(r.next() % uint64(n))
}

// ---------------------------------------------------------------------------
// tasks

const maxDepth = 12

type taskID struct {
	n int
	v [maxDepth]int32
}

//go:norace
func (a *taskID) less(b *taskID) bool {
	for i := 0; i < a.n && i < b.n; i++ {
		if a.v[i] != b.v[i] {
			return a.v[i] < b.v[i]
		}
	}
	return a.n < b.n
}

func (a *taskID) String() string {
	s := ""
	for i := 0; i < a.n; i++ {
		if i > 0 {
			s += "."
		}
		s += fmt.Sprint(a.v[i])
	}
	return s
}

type task struct {
	id            taskID
	ids           string // printable id, computed by the creator
	name          string // spawn site
	resume        chan struct{}
	site          string // where it is parked
	children      int32
	objects       int32
	done          bool
	waitMu        *sync.Mutex // non-nil: waiting for this mutex (engine park)
	prio          int64       // PCT priority (root only)
	runnableSince int         // step at which it last became runnable (root only)
	recs          []Rec       // owner only
	nrec          int
	probes        []probeCount // owner only
	settle        bool
}

type probeCount struct {
	site string
	n    int
}

type reqKind int

const (
	rPark reqKind = iota
	rExit
	rSpawn
	rSettle
	rMutexWait
	rMutexWake
)

type req struct {
	t    *task
	kind reqKind
	mu   *sync.Mutex
}

// ---------------------------------------------------------------------------
// Sim

// Strategy kinds.
const (
	StratUniform = iota
	StratSticky
	StratPCT
	StratStarve
	StratRoundRobin
	numStrat
)

var stratNames = [...]string{"uniform", "sticky", "pct", "starve", "roundrobin"}

// Config of one run.
type Config struct {
	Seed     uint64
	Replay   []uint32 // non-nil: replay these choices instead of drawing
	IsReplay bool
	MaxSteps int
	Horizon  time.Duration // simulated time bound for the whole run
	Strategy int           // -1: draw from the seed
}

const traceCap = 1 << 21

var traceBuf [traceCap]uint32
var kindBuf [traceCap]byte

type Sim struct {
	cfg      Config
	rng      rng // choice stream
	srng     rng // strategy randomness (not part of the trace)
	ntrace   int
	rpos     int
	overflow bool
	tasks    []*task // root only
	reqs     chan req
	current  *task
	live     int
	steps    int
	start    time.Time
	mainDone bool

	strat      int
	stickyP    int // percent
	pctChanges [8]int
	starveFrom int
	starveLen  int
	victim     *task
	last       *task

	stallPct    int           // percent*10 probability of a stall per step (0 = off)
	newbornLast bool          // tasks parked at "start" are released only when nothing else is runnable
	stallDur    time.Duration // simulated time that passed in injected stalls so far
	stalls      int
	idles       int
	schedHash   uint64
	interl      int // steps at which more than one task was runnable
	maxRun      int

	horizonHit   bool
	regOverflow  bool
	muteFail     bool
	rootProbes   []probeCount
	stepLimitHit bool

	mu       sync.Mutex // engine-internal, only used under raceDisable
	failures []Failure
	engErr   []string
	reg      *[regCap]regEntry
}

// Failure is an oracle violation recorded during a run.
type Failure struct {
	Oracle string
	Msg    string
}

var cur *Sim

const slotN = 1 << 18

var slots [slotN]*task
var slotIDs [slotN]int64

//go:norace
func goid() int64 {
	var buf [64]byte
	n := runtime.Stack(buf[:], false)
	var id int64
	for i := len("goroutine "); i < n && buf[i] >= '0' && buf[i] <= '9'; i++ {
		id = id*10 + int64(buf[i]-'0')
	}
	return id
}

//go:norace
func self() *task {
	g := goid()
	i := g & (slotN - 1)
	for k := 0; k < 8; k++ {
		j := (i + int64(k)) & (slotN - 1)
		if slotIDs[j] == g {
			return slots[j]
		}
	}
	return nil
}

//go:norace
func bind(t *task) {
	g := goid()
	i := g & (slotN - 1)
	for k := 0; k < 8; k++ {
		j := (i + int64(k)) & (slotN - 1)
		if slots[j] == nil || slots[j].done {
			slots[j] = t
			slotIDs[j] = g
			return
		}
	}
	panic("dsim: slot table full")
}

//go:norace
func (s *Sim) send(r req) {
	raceDisable()
	s.reqs <- r
	raceEnable()
}

//go:norace
func park(t *task, site string, kind reqKind, mu *sync.Mutex) {
	t.site = site
	raceDisable()
	cur.reqs <- req{t: t, kind: kind, mu: mu}
	<-t.resume
	raceEnable()
}

// Yield is a scheduling point: the calling task parks until the scheduler releases it.
//
//go:norace
func Yield(site string) {
	t := self()
	if t == nil {
		panic("dsim: Yield outside a task at " + site)
	}
	park(t, site, rPark, nil)
}

// Settle parks the calling task until no other task is runnable at the current instant
// (a quiescent instant: the clock would have to move for anything else to happen).
//
//go:norace
func Settle(site string) {
	t := self()
	if t == nil {
		panic("dsim: Settle outside a task")
	}
	park(t, site, rSettle, nil)
}

// Go starts a new task running f.
//
//go:norace
func Go(site string, f func()) {
	p := self()
	if p == nil {
		panic("dsim: Go outside a task at " + site)
	}
	s := cur
	p.children++
	t := &task{name: site, resume: make(chan struct{})}
	t.id = p.id
	if t.id.n >= maxDepth {
		panic("dsim: task tree too deep")
	}
	t.id.v[t.id.n] = p.children
	t.id.n++
	t.ids = t.id.String()
	s.send(req{t: t, kind: rSpawn})
	go taskMain(s, t, f)
}

func taskMain(s *Sim, t *task, f func()) {
	bind(t)
	park(t, "start", rPark, nil)
	defer func() {
		if r := recover(); r != nil {
			buf := make([]byte, 8192)
			n := runtime.Stack(buf, false)
			Fail("panic", fmt.Sprintf("panic in task %s (%s): %v\n%s", t.ids, t.name, r, buf[:n]))
		}
		t.done = true
		s.send(req{t: t, kind: rExit})
	}()
	f()
}

// Fail records an oracle violation. Callable from any task and from the root.
//
//go:norace
func Fail(oracle, msg string) {
	s := cur
	if s.muteFail && oracle != "panic" {
		return
	}
	raceDisable()
	s.mu.Lock()
	if len(s.failures) < 64 {
		s.failures = append(s.failures, Failure{oracle, msg})
	}
	s.mu.Unlock()
	raceEnable()
}

// MuteFailures makes Fail a no-op for everything but panics (used by the data-race workload,
// which runs the scenarios of other properties only for the accesses they perform).
//
//go:norace
func MuteFailures() { cur.muteFail = true }

// Failf is Fail with formatting.
func Failf(oracle, format string, args ...any) { Fail(oracle, fmt.Sprintf(format, args...)) }

//go:norace
func engineError(msg string) {
	s := cur
	raceDisable()
	s.mu.Lock()
	s.engErr = append(s.engErr, msg)
	s.mu.Unlock()
	raceEnable()
}

// ---------------------------------------------------------------------------
// choice stream

// kinds of draws (for the readable part of a replay file)
const (
	KSched  = 's'
	KSelect = 'l'
	KMap    = 'm'
	KRand   = 'r'
	KStall  = 't'
	KUser   = 'u'
)

//go:norace
func (s *Sim) draw(kind byte, n int, gen func() int) int {
	if n <= 1 {
		return 0
	}
	var v int
	if s.cfg.IsReplay {
		if s.rpos < len(s.cfg.Replay) {
			v = int(s.cfg.Replay[s.rpos] % uint32(n))
		}
		s.rpos++
	} else if gen != nil {
		v = gen()
	} else {
		v = s.rng.intn(n)
	}
	if s.ntrace < traceCap {
		traceBuf[s.ntrace] = uint32(v)
		kindBuf[s.ntrace] = kind
		s.ntrace++
	} else {
		s.overflow = true
	}
	return v
}

// Choose draws an integer in [0,n). Only the released task may draw; 0 is always the
// "simplest" alternative (shrinking moves towards 0).
//
//go:norace
func Choose(n int) int {
	s := cur
	t := self()
	if t == nil {
		engineError("Choose outside a task")
		panic("dsim: Choose outside a task")
	}
	if t != s.current {
		// a task woken inside a blocking call is not the released one: draws are totally
		// ordered only among released tasks, so become one first
		park(t, "choose", rPark, nil)
	}
	return s.draw(KUser, n, nil)
}

// ChooseKind is Choose with an explicit kind tag.
//
//go:norace
func ChooseKind(kind byte, n int) int {
	s := cur
	t := self()
	if t == nil {
		engineError("Choose outside a task")
		panic("dsim: Choose outside a task")
	}
	if t != s.current {
		park(t, "choose", rPark, nil)
	}
	return s.draw(kind, n, nil)
}

// Released tells whether the caller is the released task (and may therefore draw).
//
//go:norace
func Released() bool {
	t := self()
	return t != nil && t == cur.current
}

// EnsureReleased parks unless the caller is the released task.
//
//go:norace
func EnsureReleased(site string) {
	t := self()
	if t == nil {
		panic("dsim: outside a task at " + site)
	}
	if cur.current != t {
		park(t, site, rPark, nil)
	}
}

// Bool draws a boolean that is true with probability pct/100 (false is the simple value).
func Bool(pct int) bool {
	if pct <= 0 {
		return false
	}
	return Choose(100) >= 100-pct
}

// Range draws from lo..hi inclusive.
func Range(lo, hi int) int { return lo + Choose(hi-lo+1) }

// Bytes draws n bytes.
func Bytes(n int) []byte {
	b := make([]byte, n)
	for i := range b {
		b[i] = byte(Choose(256))
	}
	return b
}

// Pick draws one of the given values (the first is the simple one).
func Pick[T any](vals ...T) T { return vals[Choose(len(vals))] }

// SelectOrder returns a permutation of 0..n-1 drawn from the choice stream.
//
//go:norace
func SelectOrder(site string, n int) [8]int {
	var p [8]int
	if n > 8 {
		panic("dsim: select with more than 8 cases")
	}
	for i := 0; i < n; i++ {
		p[i] = i
	}
	for i := n - 1; i > 0; i-- {
		j := ChooseKind(KSelect, i+1)
		// j==0 keeps source order as the simple choice: swap with i-j
		k := i - j
		p[i], p[k] = p[k], p[i]
	}
	// the loop above builds the permutation back to front; with all draws 0 it is the identity
	return p
}

// EnableStalls turns on stall injection: at each step, with probability permille/1000, the
// scheduler lets simulated time pass although tasks are runnable.
//
//go:norace
func EnableStalls(permille int) {
	cur.stallPct = permille
}

// StallTime is the simulated time that has passed in injected stalls (time during which runnable
// tasks were held back) since the start of the run: a liveness bound is counted net of it.
//
//go:norace
func StallTime() time.Duration {
	return cur.stallDur
}

// NewbornLast makes the scheduler (generation mode) prefer tasks that have already run over tasks
// that were spawned and have not executed their first statement yet: a goroutine may take
// arbitrarily long to start, and code that assumes it has started is wrong.
//
//go:norace
func NewbornLast(on bool) {
	cur.newbornLast = on
}

// ---------------------------------------------------------------------------
// time helpers

// Now is the simulated time since the start of the run.
func Now() time.Duration { return time.Since(cur.start) }

// SetDate moves the fake clock to date (sleeping) and makes it the origin of Now().
func SetDate(date time.Time) {
	Yield("set-date")
	time.Sleep(time.Until(date))
	cur.start = time.Now()
	Yield("wake")
}

// Sleep is a yielding sleep on the fake clock.
func Sleep(d time.Duration) {
	Yield("sleep")
	time.Sleep(d)
	Yield("wake") // a woken task is not the released one; become it again before going on
}

// Step is the current step number.
//
//go:norace
func Step() int { return cur.steps }

// TaskID returns the printable id of the calling task.
//
//go:norace
func TaskID() string {
	t := self()
	if t == nil {
		return "root"
	}
	return t.ids
}

// LiveTasks lists (name@site) the tasks that have not finished. Meant to be called at a
// quiescent instant (after Settle), when every other task is blocked.
//
//go:norace
func LiveTasks() []string {
	s := cur
	me := self()
	var out []string
	for _, t := range s.tasks {
		if t != me && !t.done {
			out = append(out, t.name+"@"+t.site)
		}
	}
	return out
}

// ---------------------------------------------------------------------------
// records (history) and probes

// Rec is one record of the run history. It is appended to the calling task's own buffer;
// the root merges the buffers after the run, ordered by (Step, Task, N).
type Rec struct {
	Step int
	Task string
	N    int
	T    time.Duration
	Kind string
	S    string
	I    [4]int64
	P    any // not part of the digest (may hold pointers)
}

// Record appends to the history.
//
//go:norace
func Record(kind, str string, p any, ints ...int64) {
	t := self()
	if t == nil {
		panic("dsim: Record outside a task")
	}
	r := Rec{Step: cur.steps, Task: t.ids, N: t.nrec, T: time.Since(cur.start), Kind: kind, S: str, P: p}
	copy(r.I[:], ints)
	t.nrec++
	t.recs = append(t.recs, r)
}

// Probe counts a visit of a branch.
//
//go:norace
func Probe(site string) {
	t := self()
	if t == nil {
		// the root goroutine (oracles evaluated after the run)
		if s := cur; s != nil {
			for i := range s.rootProbes {
				if s.rootProbes[i].site == site {
					s.rootProbes[i].n++
					return
				}
			}
			s.rootProbes = append(s.rootProbes, probeCount{site, 1})
		}
		return
	}
	for i := range t.probes {
		if t.probes[i].site == site {
			t.probes[i].n++
			return
		}
	}
	t.probes = append(t.probes, probeCount{site, 1})
}

// ---------------------------------------------------------------------------
// Result

type Result struct {
	Seed        uint64
	Steps       int
	SimTime     time.Duration
	Trace       []uint32
	Kinds       []byte
	History     []Rec
	Failures    []Failure
	EngineErr   []string
	Probes      map[string]int
	Live        []string // names of tasks still alive when the run ended
	Horizon     bool     // the simulated-time horizon was reached before main returned
	StepLimit   bool
	Strategy    string
	SchedHash   uint64
	Interleave  int
	MaxRunnable int
	Stalls      int
	Idles       int
	Tasks       int
}

// Run executes one simulated run. body runs as the main task; the function it returns (may
// be nil) is evaluated by the root goroutine after the run, with the merged history.
func Run(t *testing.T, cfg Config, body func() func(h []Rec)) (res Result) {
	defer func() {
		if r := recover(); r != nil {
			msg := fmt.Sprint(r)
			if len(msg) >= 9 && msg[:9] == "deadlock:" {
				return // leaked goroutines at the end of the bubble; already accounted in Live
			}
			res.EngineErr = append(res.EngineErr, "bubble: "+msg)
		}
	}()
	synctest.Test(t, func(t *testing.T) {
		s := &Sim{cfg: cfg, reqs: make(chan req, 1<<14), reg: new([regCap]regEntry)}
		s.rng.x = cfg.Seed
		s.srng.x = cfg.Seed ^ 0x5bd1e9955bd1e995
		cur = s
		s.start = time.Now()
		s.setupStrategy()
		root := &task{name: "main", resume: make(chan struct{})}
		root.id.n = 1
		root.ids = "0"
		s.live = 1
		s.tasks = append(s.tasks, root)
		var after func(h []Rec)
		go func() {
			bind(root)
			park(root, "start", rPark, nil)
			defer func() {
				if r := recover(); r != nil {
					buf := make([]byte, 16384)
					n := runtime.Stack(buf, false)
					Fail("panic", fmt.Sprintf("panic in main task: %v\n%s", r, buf[:n]))
				}
				root.done = true
				s.mainDone = true
				s.send(req{t: root, kind: rExit})
			}()
			after = body()
		}()
		s.loop()
		synctest.Wait()
		s.current = nil
		res = s.collect()
		if after != nil && len(res.EngineErr) == 0 {
			func() {
				defer func() {
					if r := recover(); r != nil {
						buf := make([]byte, 16384)
						n := runtime.Stack(buf, false)
						res.EngineErr = append(res.EngineErr, fmt.Sprintf("oracle panic: %v\n%s", r, buf[:n]))
					}
				}()
				after(res.History)
			}()
			res.Failures = append([]Failure(nil), s.failures...)
			for _, p := range s.rootProbes {
				res.Probes[p.site] += p.n
			}
		}
		for _, tk := range s.tasks {
			tk.done = true
		}
	})
	return res
}

//go:norace
func (s *Sim) setupStrategy() {
	s.strat = s.cfg.Strategy
	if s.strat < 0 || s.strat >= numStrat {
		// weights: uniform 35, sticky 25, pct 20, starve 15, rr 5
		w := s.srng.intn(100)
		switch {
		case w < 35:
			s.strat = StratUniform
		case w < 60:
			s.strat = StratSticky
		case w < 80:
			s.strat = StratPCT
		case w < 95:
			s.strat = StratStarve
		default:
			s.strat = StratRoundRobin
		}
	}
	s.stickyP = 50 + s.srng.intn(45)
	for i := range s.pctChanges {
		s.pctChanges[i] = s.srng.intn(3000)
	}
	s.starveFrom = s.srng.intn(400)
	s.starveLen = 20 + s.srng.intn(600)
}

func (s *Sim) collect() Result {
	r := Result{Seed: s.cfg.Seed, Steps: s.steps, SimTime: time.Since(s.start), Probes: map[string]int{},
		Strategy: stratNames[s.strat], SchedHash: s.schedHash, Interleave: s.interl, MaxRunnable: s.maxRun,
		Stalls: s.stalls, Idles: s.idles, Tasks: len(s.tasks)}
	r.Trace = append([]uint32(nil), traceBuf[:s.ntrace]...)
	r.Kinds = append([]byte(nil), kindBuf[:s.ntrace]...)
	for _, t := range s.tasks {
		r.History = append(r.History, t.recs...)
		for _, p := range t.probes {
			r.Probes[p.site] += p.n
		}
		if !t.done {
			r.Live = append(r.Live, t.name+"@"+t.site)
		}
	}
	sort.SliceStable(r.History, func(i, j int) bool {
		a, b := &r.History[i], &r.History[j]
		if a.Step != b.Step {
			return a.Step < b.Step
		}
		if a.Task != b.Task {
			return a.Task < b.Task
		}
		return a.N < b.N
	})
	sort.Strings(r.Live)
	r.Failures = append([]Failure(nil), s.failures...)
	r.EngineErr = append([]string(nil), s.engErr...)
	if s.overflow {
		r.EngineErr = append(r.EngineErr, "choice trace overflow")
	}
	r.Horizon = s.horizonHit
	r.StepLimit = s.stepLimitHit
	return r
}
