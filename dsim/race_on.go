//go:build race

package dsim

import "runtime"

func raceDisable() { runtime.RaceDisable() }
func raceEnable()  { runtime.RaceEnable() }
