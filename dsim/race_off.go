//go:build !race

package dsim

func raceDisable() {}
func raceEnable()  {}
