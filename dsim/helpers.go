package dsim

import (
	"reflect"
	"sort"
	"sync"
	"time"
	"unsafe"
)

// Recv replaces a receive expression.
func Recv[T any](site string, c <-chan T) T {
	Yield(site)
	return <-c
}

// Recv2 replaces v, ok := <-c.
func Recv2[T any](site string, c <-chan T) (T, bool) {
	Yield(site)
	v, ok := <-c
	return v, ok
}

// Close replaces close(c).
func Close[T any](site string, c chan<- T) {
	Yield(site)
	close(c)
}

// Zero returns the zero value of a channel's element type.
func Zero[T any](c <-chan T) (z T) { return }

// Call replaces a call through a func-typed variable (context cancel functions etc.).
func Call(site string, f func()) {
	Yield(site)
	f()
}

// WaitGroupAdd replaces wg.Add.
func WaitGroupAdd(site string, wg *sync.WaitGroup, n int) {
	Yield(site)
	wg.Add(n)
}

// WaitGroupDone replaces wg.Done.
func WaitGroupDone(site string, wg *sync.WaitGroup) {
	Yield(site)
	wg.Done()
}

// WaitGroupWait replaces wg.Wait.
func WaitGroupWait(site string, wg *sync.WaitGroup) {
	Yield(site)
	wg.Wait()
}

// WaitGroupGo replaces wg.Go.
func WaitGroupGo(site string, wg *sync.WaitGroup, f func()) {
	Yield(site)
	wg.Add(1)
	Go(site, func() {
		defer func() {
			Yield(site)
			wg.Done()
		}()
		f()
	})
}

// OnceDo replaces once.Do.
func OnceDo(site string, o *sync.Once, f func()) {
	Yield(site)
	o.Do(f)
}

// RandRead replaces crypto/rand.Read: bytes from the choice stream.
// TimeNow, TimeSince and TimeUntil replace time.Now / Since / Until in instrumented code: reading
// the clock is a scheduling point, so under stall injection simulated time may pass between two
// clock reads of one operation (a preemption between two instructions).
//
//go:norace
func TimeNow() time.Time {
	if self() != nil {
		Yield("clock")
	}
	return time.Now()
}

//go:norace
func TimeSince(t time.Time) time.Duration {
	if self() != nil {
		Yield("clock")
	}
	return time.Since(t)
}

//go:norace
func TimeUntil(t time.Time) time.Duration {
	if self() != nil {
		Yield("clock")
	}
	return time.Until(t)
}

func RandRead(b []byte) (int, error) {
	EnsureReleased("rand")
	for i := range b {
		b[i] = byte(ChooseKind(KRand, 256))
	}
	return len(b), nil
}

// ---------------------------------------------------------------------------
// stable identities for pointers used as map keys

const regCap = 1 << 15

type regEntry struct {
	p  unsafe.Pointer
	id taskID
}

//go:norace
func (s *Sim) regPut(p unsafe.Pointer, id taskID) bool {
	h := (uintptr(p) >> 4) & (regCap - 1)
	for i := 0; i < regCap; i++ {
		e := &s.reg[(h+uintptr(i))&(regCap-1)]
		if e.p == nil || e.p == p {
			e.p, e.id = p, id
			return true
		}
	}
	return false
}

//go:norace
func (s *Sim) regGet(p unsafe.Pointer) (taskID, bool) {
	h := (uintptr(p) >> 4) & (regCap - 1)
	for i := 0; i < regCap; i++ {
		e := &s.reg[(h+uintptr(i))&(regCap-1)]
		if e.p == p {
			return e.id, true
		}
		if e.p == nil {
			return taskID{}, false
		}
	}
	return taskID{}, false
}

// Register gives a pointer a stable identity (creator task id, per-task counter).
//
//go:norace
func Register[T any](p *T) *T {
	t := self()
	if t == nil || cur == nil {
		return p
	}
	t.objects++
	id := t.id
	if id.n >= maxDepth {
		panic("dsim: task tree too deep")
	}
	id.v[id.n] = -t.objects
	id.n++
	s := cur
	raceDisable()
	s.mu.Lock()
	ok := s.regPut(unsafe.Pointer(p), id)
	s.mu.Unlock()
	raceEnable()
	if !ok {
		// more live objects than the registry holds (an allocation storm): only objects that
		// are later used as ordered map keys need an identity, and that use reports the gap
		s.regOverflow = true
	}
	return p
}

//go:norace
func objID(p unsafe.Pointer) taskID {
	s := cur
	raceDisable()
	s.mu.Lock()
	id, ok := s.regGet(p)
	s.mu.Unlock()
	raceEnable()
	if !ok {
		engineError("unregistered pointer used as an ordered map key")
		panic("dsim: unregistered pointer used as an ordered map key")
	}
	return id
}

func valCmp(a, b reflect.Value) int {
	switch a.Kind() {
	case reflect.Ptr:
		if a.IsNil() || b.IsNil() {
			switch {
			case a.IsNil() && !b.IsNil():
				return -1
			case !a.IsNil() && b.IsNil():
				return 1
			}
			return 0
		}
		if a.UnsafePointer() == b.UnsafePointer() {
			return 0
		}
		x, y := objID(a.UnsafePointer()), objID(b.UnsafePointer())
		if x.less(&y) {
			return -1
		}
		if y.less(&x) {
			return 1
		}
		return 0
	case reflect.Bool:
		switch {
		case !a.Bool() && b.Bool():
			return -1
		case a.Bool() && !b.Bool():
			return 1
		}
		return 0
	case reflect.Int, reflect.Int8, reflect.Int16, reflect.Int32, reflect.Int64:
		switch {
		case a.Int() < b.Int():
			return -1
		case a.Int() > b.Int():
			return 1
		}
		return 0
	case reflect.Uint, reflect.Uint8, reflect.Uint16, reflect.Uint32, reflect.Uint64, reflect.Uintptr:
		switch {
		case a.Uint() < b.Uint():
			return -1
		case a.Uint() > b.Uint():
			return 1
		}
		return 0
	case reflect.String:
		switch {
		case a.String() < b.String():
			return -1
		case a.String() > b.String():
			return 1
		}
		return 0
	case reflect.Struct:
		for i := 0; i < a.NumField(); i++ {
			if c := valCmp(a.Field(i), b.Field(i)); c != 0 {
				return c
			}
		}
		return 0
	case reflect.Array:
		for i := 0; i < a.Len(); i++ {
			if c := valCmp(a.Index(i), b.Index(i)); c != 0 {
				return c
			}
		}
		return 0
	case reflect.Interface:
		if a.IsNil() || b.IsNil() {
			switch {
			case a.IsNil() && !b.IsNil():
				return -1
			case !a.IsNil() && b.IsNil():
				return 1
			}
			return 0
		}
		ta, tb := a.Elem().Type().String(), b.Elem().Type().String()
		if ta != tb {
			if ta < tb {
				return -1
			}
			return 1
		}
		return valCmp(a.Elem(), b.Elem())
	}
	engineError("unsupported map key kind " + a.Kind().String())
	panic("dsim: unsupported map key kind " + a.Kind().String())
}

// Keys returns the keys of m in a run-independent order permuted by the choice stream.
func Keys[K comparable, V any](site string, m map[K]V) []K {
	EnsureReleased(site)
	ks := make([]K, 0, len(m))
	for k := range m {
		ks = append(ks, k)
	}
	sort.Slice(ks, func(i, j int) bool {
		return valCmp(reflect.ValueOf(&ks[i]).Elem(), reflect.ValueOf(&ks[j]).Elem()) < 0
	})
	for i := len(ks) - 1; i > 0; i-- {
		j := i - ChooseKind(KMap, i+1)
		ks[i], ks[j] = ks[j], ks[i]
	}
	return ks
}
