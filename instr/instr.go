// Package instr is the source instrumenter: it loads the current working tree of package
// github.com/bluenviron/gomavlib/v3 (types included), rewrites every synchronisation point
// into a dsim scheduling point, redirects sockets / serial / crypto-rand to the simulated
// world, and writes the rewritten files plus a `go build -overlay` file into a scratch
// directory. /repo itself is never modified.
package instr

import (
	"bytes"
	"encoding/json"
	"fmt"
	"go/ast"
	"go/format"
	"go/token"
	"go/types"
	"os"
	"path/filepath"
	"sort"
	"strconv"
	"strings"

	"golang.org/x/tools/go/ast/astutil"
	"golang.org/x/tools/go/packages"
)

const (
	dsimPath  = "verif/dsim"
	worldPath = "verif/world"
)

// redirected package-level symbols: import path -> symbol -> replacement in package world
var redirects = map[string]map[string]string{
	"net": {
		"Listen":       "Listen",
		"ListenPacket": "ListenPacket",
		"Dialer":       "Dialer",
		"Dial":         "Dial",
		"DialTimeout":  "DialTimeout",
		"Interfaces":   "Interfaces",
	},
	"github.com/pion/transport/v2/udp": {
		"Listen": "PionListen",
	},
	"go.bug.st/serial": {
		"Open": "SerialOpen",
	},
}

type rw struct {
	fset       *token.FileSet
	info       *types.Info
	pkg        *types.Package
	n          int
	stats      map[string]int
	probes     *[]string
	world      bool
	noRegister bool // pointer registration is only needed where pointers are map keys (the root package)
}

func (r *rw) siteStr(p token.Pos) string {
	pos := r.fset.Position(p)
	return fmt.Sprintf("%s:%d", filepath.Base(pos.Filename), pos.Line)
}

func (r *rw) site(p token.Pos) *ast.BasicLit {
	return &ast.BasicLit{Kind: token.STRING, Value: strconv.Quote(r.siteStr(p))}
}

func id(s string) *ast.Ident { return ast.NewIdent(s) }

func dsim(fn string, args ...ast.Expr) *ast.CallExpr {
	return &ast.CallExpr{Fun: &ast.SelectorExpr{X: id("dsim"), Sel: id(fn)}, Args: args}
}

func (r *rw) fresh(prefix string) string {
	r.n++
	return fmt.Sprintf("_%s%d", prefix, r.n)
}

func define(name string, val ast.Expr) ast.Stmt {
	return &ast.AssignStmt{Lhs: []ast.Expr{id(name)}, Tok: token.DEFINE, Rhs: []ast.Expr{val}}
}

func exprStmt(e ast.Expr) ast.Stmt { return &ast.ExprStmt{X: e} }

func intLit(i int) ast.Expr { return &ast.BasicLit{Kind: token.INT, Value: strconv.Itoa(i)} }

func (r *rw) yield(p token.Pos) ast.Stmt { return exprStmt(dsim("Yield", r.site(p))) }

func (r *rw) probe(p token.Pos, tag string) ast.Stmt {
	s := r.siteStr(p) + "#" + tag
	*r.probes = append(*r.probes, s)
	return exprStmt(dsim("Probe", &ast.BasicLit{Kind: token.STRING, Value: strconv.Quote(s)}))
}

// ---- expressions ----

func (r *rw) expr(e ast.Expr) ast.Expr {
	if e == nil {
		return nil
	}
	res := astutil.Apply(e, func(c *astutil.Cursor) bool {
		if fl, ok := c.Node().(*ast.FuncLit); ok {
			fl.Body.List = r.block(fl.Body.List)
			return false
		}
		return true
	}, func(c *astutil.Cursor) bool {
		switch n := c.Node().(type) {
		case *ast.UnaryExpr:
			if n.Op == token.ARROW {
				r.stats["recv"]++
				c.Replace(dsim("Recv", r.site(n.Pos()), n.X))
			}
			if n.Op == token.AND {
				if cl, ok := n.X.(*ast.CompositeLit); ok && r.localStruct(r.info.TypeOf(cl)) {
					r.stats["register"]++
					c.Replace(dsim("Register", n))
				}
			}
		case *ast.SelectorExpr:
			if repl := r.redirect(n); repl != nil {
				c.Replace(repl)
			}
		case *ast.CallExpr:
			if repl := r.call(n); repl != nil {
				c.Replace(repl)
			}
		}
		return true
	})
	return res.(ast.Expr)
}

func (r *rw) redirect(n *ast.SelectorExpr) ast.Expr {
	x, ok := n.X.(*ast.Ident)
	if !ok {
		return nil
	}
	pn, ok := r.info.Uses[x].(*types.PkgName)
	if !ok {
		return nil
	}
	path := pn.Imported().Path()
	if path == "crypto/rand" && n.Sel.Name == "Read" {
		r.stats["rand"]++
		return &ast.SelectorExpr{X: id("dsim"), Sel: id("RandRead")}
	}
	if path == "time" && (n.Sel.Name == "Now" || n.Sel.Name == "Since" || n.Sel.Name == "Until") {
		// reading the clock is a preemption point: time may pass between two reads
		r.stats["clock"]++
		return &ast.SelectorExpr{X: id("dsim"), Sel: id("Time" + n.Sel.Name)}
	}
	if m, ok := redirects[path]; ok {
		if to, ok := m[n.Sel.Name]; ok {
			r.stats["redirect:"+path+"."+n.Sel.Name]++
			r.world = true
			return &ast.SelectorExpr{X: id("world"), Sel: id(to)}
		}
	}
	return nil
}

func (r *rw) localStruct(t types.Type) bool {
	if t == nil || r.noRegister {
		return false
	}
	nt, ok := t.(*types.Named)
	if !ok || nt.Obj().Pkg() != r.pkg {
		return false
	}
	_, ok = nt.Underlying().(*types.Struct)
	return ok
}

func isNiladic(t types.Type) bool {
	sig, ok := t.Underlying().(*types.Signature)
	return ok && sig.Params().Len() == 0 && sig.Results().Len() == 0
}

// call returns a replacement for a call expression, or nil.
func (r *rw) call(n *ast.CallExpr) ast.Expr {
	if se, ok := n.Fun.(*ast.SelectorExpr); ok {
		if x, ok := se.X.(*ast.Ident); ok && (x.Name == "dsim" || x.Name == "world") && r.info.Uses[x] == nil {
			return nil // already rewritten
		}
	}
	switch fun := n.Fun.(type) {
	case *ast.SelectorExpr:
		if sel := r.info.Selections[fun]; sel != nil {
			obj := sel.Obj()
			if sel.Kind() == types.MethodVal && obj.Pkg() != nil && obj.Pkg().Path() == "sync" {
				recv := sel.Recv()
				ptr := false
				if p, ok := recv.(*types.Pointer); ok {
					recv = p.Elem()
					ptr = true
				}
				if nt, ok := recv.(*types.Named); ok && nt.Obj().Pkg() != nil && nt.Obj().Pkg().Path() == "sync" {
					name := nt.Obj().Name() + obj.Name() // MutexLock, WaitGroupDone, ...
					switch name {
					case "MutexLock", "MutexUnlock", "MutexTryLock", "RWMutexLock", "RWMutexUnlock", "RWMutexRLock", "RWMutexRUnlock",
						"WaitGroupAdd", "WaitGroupDone", "WaitGroupWait", "WaitGroupGo", "OnceDo":
					case "CondWait", "CondSignal", "CondBroadcast":
						// a scheduling point in front of the operation; the call itself stays
						r.stats["sync."+name]++
						return &ast.CallExpr{Fun: &ast.FuncLit{Type: &ast.FuncType{Params: &ast.FieldList{}}, Body: &ast.BlockStmt{List: []ast.Stmt{
							r.yield(n.Pos()), exprStmt(n)}}}}
					default:
						// sync.Pool, sync.Map and the like do not block: left as they are
						return nil
					}
					var x ast.Expr = fun.X
					if !ptr {
						x = &ast.UnaryExpr{Op: token.AND, X: fun.X}
					}
					r.stats["sync."+name]++
					args := append([]ast.Expr{r.site(n.Pos()), x}, n.Args...)
					return dsim(name, args...)
				}
				// a sync method reached through embedding (e.g. struct{ sync.Mutex }): a scheduling
				// point in front of it; a contended Lock would not be an engine park, so report it
				if obj.Name() == "Lock" || obj.Name() == "RLock" {
					panic(fmt.Sprintf("%s: sync lock through embedding is not supported by the instrumenter", r.fset.Position(n.Pos())))
				}
				return nil
			}
			if sel.Kind() == types.FieldVal && isNiladic(sel.Type()) {
				r.stats["funcvar"]++
				return dsim("Call", r.site(n.Pos()), n.Fun)
			}
			return nil
		}
	case *ast.Ident:
		if v, ok := r.info.Uses[fun].(*types.Var); ok && isNiladic(v.Type()) {
			r.stats["funcvar"]++
			return dsim("Call", r.site(n.Pos()), n.Fun)
		}
		if r.isBuiltin(fun, "new") && len(n.Args) == 1 && r.localStruct(r.info.TypeOf(n.Args[0])) {
			r.stats["register"]++
			return dsim("Register", n)
		}
	}
	return nil
}

func (r *rw) isBuiltin(e ast.Expr, name string) bool {
	i, ok := e.(*ast.Ident)
	if !ok || i.Name != name {
		return false
	}
	_, ok = r.info.Uses[i].(*types.Builtin)
	return ok
}

// ---- statements ----

func (r *rw) block(list []ast.Stmt) []ast.Stmt {
	var out []ast.Stmt
	for _, s := range list {
		out = append(out, r.stmt(s)...)
	}
	return out
}

func (r *rw) one(s ast.Stmt) ast.Stmt {
	if s == nil {
		return nil
	}
	l := r.stmt(s)
	if len(l) == 1 {
		return l[0]
	}
	return &ast.BlockStmt{List: l}
}

func (r *rw) simple(s ast.Stmt) ast.Stmt {
	if s == nil {
		return nil
	}
	l := r.stmt(s)
	if len(l) != 1 {
		panic(fmt.Sprintf("%s: simple statement expanded", r.fset.Position(s.Pos())))
	}
	return l[0]
}

func (r *rw) stmt(s ast.Stmt) []ast.Stmt {
	switch s := s.(type) {
	case *ast.BlockStmt:
		s.List = r.block(s.List)
		return []ast.Stmt{s}

	case *ast.LabeledStmt:
		inner := r.stmt(s.Stmt)
		s.Stmt = inner[len(inner)-1]
		return append(inner[:len(inner)-1:len(inner)-1], s)

	case *ast.ExprStmt:
		if call, ok := s.X.(*ast.CallExpr); ok && r.isBuiltin(call.Fun, "close") {
			r.stats["close"]++
			s.X = dsim("Close", r.site(call.Pos()), r.expr(call.Args[0]))
			return []ast.Stmt{s}
		}
		s.X = r.expr(s.X)
		return []ast.Stmt{s}

	case *ast.SendStmt:
		r.stats["send"]++
		c, v := r.fresh("c"), r.fresh("v")
		return []ast.Stmt{&ast.BlockStmt{List: []ast.Stmt{
			define(c, r.expr(s.Chan)),
			define(v, r.expr(s.Value)),
			r.yield(s.Pos()),
			&ast.SendStmt{Chan: id(c), Value: id(v)},
		}}}

	case *ast.AssignStmt:
		if len(s.Lhs) == 2 && len(s.Rhs) == 1 {
			if u, ok := s.Rhs[0].(*ast.UnaryExpr); ok && u.Op == token.ARROW {
				r.stats["recv2"]++
				s.Rhs[0] = dsim("Recv2", r.site(u.Pos()), r.expr(u.X))
				for i := range s.Lhs {
					s.Lhs[i] = r.expr(s.Lhs[i])
				}
				return []ast.Stmt{s}
			}
		}
		for i := range s.Lhs {
			s.Lhs[i] = r.expr(s.Lhs[i])
		}
		for i := range s.Rhs {
			s.Rhs[i] = r.expr(s.Rhs[i])
		}
		return []ast.Stmt{s}

	case *ast.GoStmt:
		r.stats["go"]++
		call := s.Call
		var pre []ast.Stmt
		var fn ast.Expr
		if fl, ok := call.Fun.(*ast.FuncLit); ok && len(call.Args) == 0 {
			fn = r.expr(fl)
		} else {
			f := r.fresh("f")
			pre = append(pre, define(f, r.expr(call.Fun)))
			var args []ast.Expr
			for _, a := range call.Args {
				an := r.fresh("a")
				pre = append(pre, define(an, r.expr(a)))
				args = append(args, id(an))
			}
			if len(args) == 0 && isNiladic(r.info.TypeOf(call.Fun)) {
				fn = id(f)
			} else {
				fn = &ast.FuncLit{Type: &ast.FuncType{Params: &ast.FieldList{}}, Body: &ast.BlockStmt{List: []ast.Stmt{
					exprStmt(&ast.CallExpr{Fun: id(f), Args: args, Ellipsis: call.Ellipsis}),
				}}}
			}
		}
		pre = append(pre, exprStmt(dsim("Go", r.site(s.Pos()), fn)))
		if len(pre) == 1 {
			return pre
		}
		return []ast.Stmt{&ast.BlockStmt{List: pre}}

	case *ast.DeferStmt:
		call := s.Call
		if r.isBuiltin(call.Fun, "close") {
			r.stats["close"]++
			s.Call = dsim("Close", r.site(call.Pos()), r.expr(call.Args[0]))
			return []ast.Stmt{s}
		}
		if fl, ok := call.Fun.(*ast.FuncLit); ok {
			fl.Body.List = r.block(fl.Body.List)
			for i := range call.Args {
				call.Args[i] = r.expr(call.Args[i])
			}
			return []ast.Stmt{s}
		}
		if repl := r.call(call); repl != nil {
			s.Call = repl.(*ast.CallExpr)
			for i := range s.Call.Args {
				s.Call.Args[i] = r.expr(s.Call.Args[i])
			}
			return []ast.Stmt{s}
		}
		s.Call.Fun = r.expr(s.Call.Fun)
		for i := range s.Call.Args {
			s.Call.Args[i] = r.expr(s.Call.Args[i])
		}
		return []ast.Stmt{s}

	case *ast.IfStmt:
		s.Init = r.simple(s.Init)
		s.Cond = r.expr(s.Cond)
		s.Body.List = append([]ast.Stmt{r.probe(s.Body.Pos(), "if")}, r.block(s.Body.List)...)
		if s.Else != nil {
			if eb, ok := s.Else.(*ast.BlockStmt); ok {
				eb.List = append([]ast.Stmt{r.probe(eb.Pos(), "else")}, r.block(eb.List)...)
			} else {
				s.Else = r.one(s.Else)
			}
		}
		return []ast.Stmt{s}

	case *ast.ForStmt:
		s.Init = r.simple(s.Init)
		s.Cond = r.expr(s.Cond)
		s.Post = r.simple(s.Post)
		s.Body.List = r.block(s.Body.List)
		return []ast.Stmt{s}

	case *ast.RangeStmt:
		return r.rangeStmt(s)

	case *ast.SwitchStmt:
		s.Init = r.simple(s.Init)
		s.Tag = r.expr(s.Tag)
		r.clauses(s.Body)
		return []ast.Stmt{s}

	case *ast.TypeSwitchStmt:
		s.Init = r.simple(s.Init)
		if as, ok := s.Assign.(*ast.AssignStmt); ok {
			for i := range as.Rhs {
				as.Rhs[i] = r.expr(as.Rhs[i])
			}
		} else if es, ok := s.Assign.(*ast.ExprStmt); ok {
			es.X = r.expr(es.X)
		}
		r.clauses(s.Body)
		return []ast.Stmt{s}

	case *ast.SelectStmt:
		return r.selectStmt(s)

	case *ast.ReturnStmt:
		for i := range s.Results {
			s.Results[i] = r.expr(s.Results[i])
		}
		return []ast.Stmt{s}

	case *ast.IncDecStmt:
		s.X = r.expr(s.X)
		return []ast.Stmt{s}

	case *ast.DeclStmt:
		if gd, ok := s.Decl.(*ast.GenDecl); ok {
			for _, sp := range gd.Specs {
				if vs, ok := sp.(*ast.ValueSpec); ok {
					for i := range vs.Values {
						vs.Values[i] = r.expr(vs.Values[i])
					}
				}
			}
		}
		return []ast.Stmt{s}
	}
	return []ast.Stmt{s}
}

func (r *rw) clauses(b *ast.BlockStmt) {
	for _, c := range b.List {
		if cc, ok := c.(*ast.CaseClause); ok {
			for i := range cc.List {
				cc.List[i] = r.expr(cc.List[i])
			}
			cc.Body = r.block(cc.Body)
		}
	}
}

func (r *rw) rangeStmt(s *ast.RangeStmt) []ast.Stmt {
	s.X = r.expr(s.X)
	s.Body.List = r.block(s.Body.List)
	t := r.info.TypeOf(s.X)
	if t == nil {
		return []ast.Stmt{s}
	}
	switch t.Underlying().(type) {
	case *types.Map:
		if s.Tok != token.DEFINE && s.Key != nil {
			panic(fmt.Sprintf("%s: map range without := is not supported by the instrumenter", r.fset.Position(s.Pos())))
		}
		r.stats["maprange"]++
		m := r.fresh("m")
		key := r.fresh("k")
		userKey := false
		if k, ok := s.Key.(*ast.Ident); ok && k.Name != "_" {
			key = k.Name
			userKey = true
		}
		okv := r.fresh("ok")
		valName := "_"
		if v, ok := s.Value.(*ast.Ident); ok && v != nil && v.Name != "_" {
			valName = v.Name
		}
		pre := []ast.Stmt{
			&ast.AssignStmt{Lhs: []ast.Expr{id(valName), id(okv)}, Tok: token.DEFINE,
				Rhs: []ast.Expr{&ast.IndexExpr{X: id(m), Index: id(key)}}},
			&ast.IfStmt{Cond: &ast.UnaryExpr{Op: token.NOT, X: id(okv)}, Body: &ast.BlockStmt{List: []ast.Stmt{&ast.BranchStmt{Tok: token.CONTINUE}}}},
		}
		if userKey {
			pre = append(pre, &ast.AssignStmt{Lhs: []ast.Expr{id("_")}, Tok: token.ASSIGN, Rhs: []ast.Expr{id(key)}})
		}
		body := append(pre, s.Body.List...)
		loop := &ast.RangeStmt{Key: id("_"), Value: id(key), Tok: token.DEFINE,
			X:    dsim("Keys", r.site(s.Pos()), id(m)),
			Body: &ast.BlockStmt{List: body}}
		return []ast.Stmt{define(m, s.X), loop}
	case *types.Chan:
		r.stats["chanrange"]++
		c := r.fresh("c")
		okv := r.fresh("ok")
		var lhs ast.Expr = id("_")
		tok := token.ASSIGN
		if s.Key != nil {
			lhs = s.Key
			tok = s.Tok
		}
		recv := &ast.AssignStmt{Lhs: []ast.Expr{lhs, id(okv)}, Tok: tok, Rhs: []ast.Expr{dsim("Recv2", r.site(s.Pos()), id(c))}}
		var head []ast.Stmt
		if tok == token.ASSIGN {
			head = append(head, &ast.DeclStmt{Decl: &ast.GenDecl{Tok: token.VAR, Specs: []ast.Spec{
				&ast.ValueSpec{Names: []*ast.Ident{id(okv)}, Type: id("bool")}}}})
		}
		head = append(head, recv,
			&ast.IfStmt{Cond: &ast.UnaryExpr{Op: token.NOT, X: id(okv)}, Body: &ast.BlockStmt{List: []ast.Stmt{&ast.BranchStmt{Tok: token.BREAK}}}})
		if ki, ok := s.Key.(*ast.Ident); ok && ki.Name != "_" && tok == token.DEFINE {
			head = append(head, &ast.AssignStmt{Lhs: []ast.Expr{id("_")}, Tok: token.ASSIGN, Rhs: []ast.Expr{id(ki.Name)}})
		}
		loop := &ast.ForStmt{Body: &ast.BlockStmt{List: append(head, s.Body.List...)}}
		return []ast.Stmt{define(c, s.X), loop}
	}
	return []ast.Stmt{s}
}

func (r *rw) selectStmt(s *ast.SelectStmt) []ast.Stmt {
	r.stats["select"]++
	sfx := r.fresh("s")
	nm := func(p string, i int) string { return fmt.Sprintf("%s%s_%d", sfx, p, i) }
	site := r.site(s.Pos())

	type cinfo struct {
		body   []ast.Stmt
		isDef  bool
		isSend bool
		hasVal bool
		assign *ast.AssignStmt
		idx    int
		pos    token.Pos
	}
	var cs []*cinfo
	var pre []ast.Stmt
	nn := 0
	// operands are evaluated once, in source order, before the yield
	for _, c := range s.Body.List {
		cc := c.(*ast.CommClause)
		ci := &cinfo{body: r.block(cc.Body), pos: cc.Pos()}
		cs = append(cs, ci)
		if cc.Comm == nil {
			ci.isDef = true
			continue
		}
		ci.idx = nn
		nn++
		switch cm := cc.Comm.(type) {
		case *ast.SendStmt:
			ci.isSend = true
			pre = append(pre, define(nm("c", ci.idx), r.expr(cm.Chan)))
			pre = append(pre, define(nm("v", ci.idx), r.expr(cm.Value)))
		case *ast.ExprStmt:
			u, ok := cm.X.(*ast.UnaryExpr)
			if !ok {
				panic(fmt.Sprintf("%s: unsupported select case", r.fset.Position(cm.Pos())))
			}
			pre = append(pre, define(nm("c", ci.idx), r.expr(u.X)))
		case *ast.AssignStmt:
			u, ok := cm.Rhs[0].(*ast.UnaryExpr)
			if !ok {
				panic(fmt.Sprintf("%s: unsupported select case", r.fset.Position(cm.Pos())))
			}
			ci.hasVal = true
			ci.assign = cm
			pre = append(pre, define(nm("c", ci.idx), r.expr(u.X)))
			pre = append(pre, define(nm("r", ci.idx), dsim("Zero", id(nm("c", ci.idx)))))
			pre = append(pre, define(nm("ok", ci.idx), id("false")))
			pre = append(pre, &ast.AssignStmt{Lhs: []ast.Expr{id("_"), id("_")}, Tok: token.ASSIGN, Rhs: []ast.Expr{id(nm("r", ci.idx)), id(nm("ok", ci.idx))}})
		}
	}
	pre = append(pre, exprStmt(dsim("Yield", site)))
	selv := sfx + "sel"
	pre = append(pre, define(selv, &ast.UnaryExpr{Op: token.SUB, X: intLit(1)}))

	setSel := func(i int) ast.Stmt {
		return &ast.AssignStmt{Lhs: []ast.Expr{id(selv)}, Tok: token.ASSIGN, Rhs: []ast.Expr{intLit(i)}}
	}
	commFor := func(ci *cinfo) ast.Stmt {
		c := id(nm("c", ci.idx))
		switch {
		case ci.isSend:
			return &ast.SendStmt{Chan: c, Value: id(nm("v", ci.idx))}
		case ci.hasVal:
			return &ast.AssignStmt{Lhs: []ast.Expr{id(nm("r", ci.idx)), id(nm("ok", ci.idx))}, Tok: token.ASSIGN,
				Rhs: []ast.Expr{&ast.UnaryExpr{Op: token.ARROW, X: c}}}
		default:
			return exprStmt(&ast.UnaryExpr{Op: token.ARROW, X: c})
		}
	}

	// polling, in an order drawn from the choice stream
	var pollCases []ast.Stmt
	for i, ci := range cs {
		if ci.isDef {
			continue
		}
		pollCases = append(pollCases, &ast.CaseClause{
			List: []ast.Expr{intLit(ci.idx)},
			Body: []ast.Stmt{&ast.SelectStmt{Body: &ast.BlockStmt{List: []ast.Stmt{
				&ast.CommClause{Comm: commFor(ci), Body: []ast.Stmt{setSel(i)}},
				&ast.CommClause{Comm: nil},
			}}}},
		})
	}
	if nn > 1 {
		ov, iv := sfx+"o", sfx+"i"
		pre = append(pre, define(ov, dsim("SelectOrder", site, intLit(nn))))
		pollLoop := &ast.ForStmt{
			Init: define(iv, intLit(0)),
			Cond: &ast.BinaryExpr{X: &ast.BinaryExpr{X: id(iv), Op: token.LSS, Y: intLit(nn)}, Op: token.LAND,
				Y: &ast.BinaryExpr{X: id(selv), Op: token.LSS, Y: intLit(0)}},
			Post: &ast.IncDecStmt{X: id(iv), Tok: token.INC},
			Body: &ast.BlockStmt{List: []ast.Stmt{
				&ast.SwitchStmt{Tag: &ast.IndexExpr{X: id(ov), Index: id(iv)}, Body: &ast.BlockStmt{List: pollCases}},
			}}}
		pre = append(pre, pollLoop)
	} else if nn == 1 {
		pre = append(pre, pollCases[0].(*ast.CaseClause).Body...)
	}

	// blocking fallback
	var fallback []ast.Stmt
	defIdx := -1
	for i, ci := range cs {
		if ci.isDef {
			defIdx = i
		}
	}
	if defIdx >= 0 {
		fallback = []ast.Stmt{setSel(defIdx)}
	} else {
		var comms []ast.Stmt
		for i, ci := range cs {
			comms = append(comms, &ast.CommClause{Comm: commFor(ci), Body: []ast.Stmt{setSel(i)}})
		}
		fallback = []ast.Stmt{&ast.SelectStmt{Body: &ast.BlockStmt{List: comms}}}
	}
	pre = append(pre, &ast.IfStmt{Cond: &ast.BinaryExpr{X: id(selv), Op: token.LSS, Y: intLit(0)},
		Body: &ast.BlockStmt{List: fallback}})

	// dispatch
	var disp []ast.Stmt
	for i, ci := range cs {
		var body []ast.Stmt
		if ci.hasVal {
			a := ci.assign
			rhs := []ast.Expr{id(nm("r", ci.idx))}
			if len(a.Lhs) == 2 {
				rhs = append(rhs, id(nm("ok", ci.idx)))
			}
			lhs := append([]ast.Expr(nil), a.Lhs...)
			body = append(body, &ast.AssignStmt{Lhs: lhs, Tok: a.Tok, Rhs: rhs})
			if a.Tok == token.DEFINE {
				for _, l := range a.Lhs {
					if li, ok := l.(*ast.Ident); ok && li.Name != "_" {
						body = append(body, &ast.AssignStmt{Lhs: []ast.Expr{id("_")}, Tok: token.ASSIGN, Rhs: []ast.Expr{id(li.Name)}})
					}
				}
			}
		}
		tag := "case"
		if ci.isDef {
			tag = "default"
		}
		body = append(body, r.probe(ci.pos, tag))
		body = append(body, ci.body...)
		disp = append(disp, &ast.CaseClause{List: []ast.Expr{intLit(i)}, Body: body})
	}
	sw := &ast.SwitchStmt{Tag: id(selv), Body: &ast.BlockStmt{List: disp}}
	// a block keeps the helper variables out of the enclosing scope; labels attach to the
	// switch, so `break` inside a case body still leaves the (former) select
	return []ast.Stmt{&ast.BlockStmt{List: append(pre, sw)}}
}

// Result of an instrumentation pass.
type Result struct {
	Overlay string         // path of the overlay JSON
	Files   int            // rewritten files
	Stats   map[string]int // rewrites by kind
	Probes  []string       // probe sites inserted
}

// Run instruments the package rooted at repo and writes into outDir.
func Run(repo, outDir string) (res *Result, err error) {
	defer func() {
		if r := recover(); r != nil {
			err = fmt.Errorf("instrumenter: %v", r)
		}
	}()
	cfg := &packages.Config{
		Mode: packages.NeedName | packages.NeedFiles | packages.NeedCompiledGoFiles | packages.NeedSyntax |
			packages.NeedTypes | packages.NeedTypesInfo | packages.NeedImports | packages.NeedDeps,
		Dir:        repo,
		BuildFlags: []string{"-tags=verif"},
		Env:        append(os.Environ(), "GOFLAGS=-mod=mod", "GOPROXY=off", "GOSUMDB=off"),
	}
	// the root package (the concurrent half) and the hand-written packages under pkg/: the
	// latter are sequential as shipped, but a change may add synchronisation to them
	pkgs, err := packages.Load(cfg, ".", "./pkg/timednetconn", "./pkg/frame", "./pkg/streamwriter", "./pkg/message",
		"./pkg/dialect", "./pkg/tlog", "./pkg/x25")
	if err != nil {
		return nil, err
	}
	if len(pkgs) == 0 {
		return nil, fmt.Errorf("no package loaded")
	}
	overlay := map[string]string{}
	if err := os.MkdirAll(outDir, 0o755); err != nil {
		return nil, err
	}
	res = &Result{Stats: map[string]int{}}
	for _, p := range pkgs {
		if len(p.Errors) > 0 {
			return nil, fmt.Errorf("package %s does not type-check: %v", p.PkgPath, p.Errors[0])
		}
		if err := instrumentPackage(p, repo, outDir, overlay, res); err != nil {
			return nil, err
		}
	}
	js, _ := json.MarshalIndent(map[string]any{"Replace": overlay}, "", " ")
	res.Overlay = filepath.Join(outDir, "overlay.json")
	if err := os.WriteFile(res.Overlay, js, 0o644); err != nil {
		return nil, err
	}
	sort.Strings(res.Probes)
	return res, nil
}

func instrumentPackage(p *packages.Package, repo, outDir string, overlay map[string]string, res *Result) error {
	root := p.PkgPath == "github.com/bluenviron/gomavlib/v3"
	for i, f := range p.Syntax {
		path := p.CompiledGoFiles[i]
		var fileProbes []string
		r := &rw{fset: p.Fset, info: p.TypesInfo, pkg: p.Types, stats: map[string]int{}, probes: &fileProbes, noRegister: !root}
		f.Comments = nil // go/printer would misplace them after rewriting
		for _, d := range f.Decls {
			if fd, ok := d.(*ast.FuncDecl); ok {
				fd.Doc = nil
				if fd.Body != nil {
					fd.Body.List = r.block(fd.Body.List)
				}
			}
			if gd, ok := d.(*ast.GenDecl); ok {
				gd.Doc = nil
				for _, sp := range gd.Specs {
					switch sp := sp.(type) {
					case *ast.ValueSpec:
						sp.Doc, sp.Comment = nil, nil
						for i := range sp.Values {
							sp.Values[i] = r.expr(sp.Values[i])
						}
					case *ast.TypeSpec:
						sp.Doc, sp.Comment = nil, nil
						ast.Inspect(sp.Type, func(n ast.Node) bool {
							if fl, ok := n.(*ast.Field); ok {
								fl.Doc, fl.Comment = nil, nil
							}
							return true
						})
					}
				}
			}
		}
		used := 0
		for _, v := range r.stats {
			used += v
		}
		if used == 0 && !r.world {
			continue
		}
		for k, v := range r.stats {
			res.Stats[k] += v
		}
		res.Probes = append(res.Probes, fileProbes...)
		astutil.AddImport(p.Fset, f, dsimPath)
		if r.world {
			astutil.AddImport(p.Fset, f, worldPath)
		}
		if !astutil.UsesImport(f, dsimPath) {
			astutil.DeleteImport(p.Fset, f, dsimPath)
		}
		for _, imp := range []string{"crypto/rand", "net", "github.com/pion/transport/v2/udp", "go.bug.st/serial", "sync", "time"} {
			if !astutil.UsesImport(f, imp) {
				astutil.DeleteImport(p.Fset, f, imp)
			}
		}
		var buf bytes.Buffer
		if err := format.Node(&buf, p.Fset, f); err != nil {
			return fmt.Errorf("%s: %v", path, err)
		}
		src := buf.Bytes()
		rel, err := filepath.Rel(repo, path)
		if err != nil {
			rel = filepath.Base(path)
		}
		dst := filepath.Join(outDir, strings.ReplaceAll(rel, string(filepath.Separator), "__"))
		if err := os.WriteFile(dst, src, 0o644); err != nil {
			return err
		}
		overlay[path] = dst
		res.Files++
	}
	return nil
}
