// vcheck is the driver of the deterministic-simulation checks.
//
//	vcheck <property> quick|thorough      run a check, write evidence, exit 0/1/2
//	vcheck replay <file>                  re-execute a replay file against the current tree
//	vcheck selftest <property> [n]        determinism self-test (same seeds, different GOMAXPROCS)
//	vcheck history <property> <seed>      print the history of one run (debugging)
//
// Exit codes: 0 property held on everything explored (known findings are printed);
// 1 a violation not listed in known_findings.json; 2 infrastructure trouble (build failure,
// instrumenter gap, engine error, watchdog) — never reported as a violation.
package main

import (
	"bufio"
	"crypto/sha256"
	"encoding/hex"
	"encoding/json"
	"fmt"
	"io"
	"os"
	"os/exec"
	"path/filepath"
	"sort"
	"strconv"
	"strings"
	"sync"
	"time"

	"verif/instr"
)

const (
	repoDir = "/repo"
	goBin   = "go1.26.8"
)

// verifDir is where the framework lives: /verif, or a snapshot of it (VERIF_DIR, set by ./check).
var verifDir = func() string {
	if d := os.Getenv("VERIF_DIR"); d != "" {
		return d
	}
	return "/verif"
}()

type failure struct {
	Oracle string `json:"Oracle"`
	Msg    string `json:"Msg"`
}

type runOut struct {
	ID         int            `json:"id"`
	Seed       uint64         `json:"seed"`
	Steps      int            `json:"steps"`
	SimNS      int64          `json:"sim_ns"`
	WallUS     int64          `json:"wall_us"`
	Strategy   string         `json:"strategy"`
	SchedHash  string         `json:"sched_hash"`
	Digest     string         `json:"digest"`
	Interleave int            `json:"interleave"`
	MaxRun     int            `json:"max_runnable"`
	Tasks      int            `json:"tasks"`
	Stalls     int            `json:"stalls"`
	Nontrivial bool           `json:"nontrivial"`
	Failures   []failure      `json:"failures,omitempty"`
	EngineErr  []string       `json:"engine_err,omitempty"`
	Probes     map[string]int `json:"probes,omitempty"`
	Live       []string       `json:"live,omitempty"`
	NChoices   int            `json:"n_choices"`
	Choices    []uint32       `json:"choices,omitempty"`
	Kinds      string         `json:"kinds,omitempty"`
	History    []string       `json:"history,omitempty"`
}

type job struct {
	Prop      string   `json:"prop"`
	Mode      string   `json:"mode"`
	Seeds     []uint64 `json:"seeds,omitempty"`
	WantTrace bool     `json:"want_trace,omitempty"`
	WantHist  bool     `json:"want_hist,omitempty"`
}

type cand struct {
	ID      int      `json:"id"`
	Seed    uint64   `json:"seed"`
	Choices []uint32 `json:"choices"`
}

type replayFile struct {
	Property string   `json:"property"`
	Seed     uint64   `json:"seed"`
	Tier     string   `json:"tier"`
	Oracle   string   `json:"oracle"`
	Message  string   `json:"message"`
	Digest   string   `json:"digest"`
	Steps    int      `json:"steps"`
	Strategy string   `json:"strategy"`
	Tree     string   `json:"tree_fingerprint"`
	Original int      `json:"original_choices"`
	Shrunk   int      `json:"shrink_candidates"`
	Choices  []uint32 `json:"choices"`
	Kinds    string   `json:"kinds"`
}

type finding struct {
	Property string `json:"property"`
	Status   string `json:"status"` // open | fixed
	Oracle   string `json:"oracle"`
	Match    string `json:"match"` // substring that the violation message must contain
	Commit   string `json:"commit,omitempty"`
	Text     string `json:"text"`
}

func die2(format string, args ...any) {
	fmt.Fprintf(os.Stderr, "vcheck: "+format+"\n", args...)
	fmt.Printf("INFRA-ERROR "+format+"\n", args...)
	cleanup()
	os.Exit(2)
}

var scratch string

func cleanup() {
	if scratch != "" && os.Getenv("VERIF_KEEP_SCRATCH") == "" {
		os.RemoveAll(scratch)
	}
}

func goEnv() []string {
	env := os.Environ()
	env = append(env, "GOFLAGS=-mod=mod", "GOPROXY=off", "GOSUMDB=off", "GOTOOLCHAIN=local", "CGO_ENABLED=1")
	return env
}

// propMeta mirrors what the driver needs to know about each property without importing the
// scenario code (which only compiles against the overlay).
type propMeta struct {
	node        bool // the scenario runs an instrumented Node (branch probes are meaningful)
	race        bool
	quickRuns   int
	thoroughSec int
	batch       int
	level       string
}

var metas = map[string]propMeta{
	"C01": {quickRuns: 6000, thoroughSec: 600, batch: 500, level: "exploration"},
	"C02": {quickRuns: 4000, thoroughSec: 600, batch: 400, level: "fault_enumeration"},
	"C05": {quickRuns: 6000, thoroughSec: 600, batch: 500, level: "exploration"},
	"C06": {node: true, quickRuns: 5000, thoroughSec: 600, batch: 300, level: "fault_enumeration"},
	"C07": {quickRuns: 6000, thoroughSec: 600, batch: 400, level: "exploration"},
	"C08": {node: true, quickRuns: 4000, thoroughSec: 720, batch: 250, level: "exploration"},
	"C09": {node: true, quickRuns: 1300, thoroughSec: 720, batch: 150, level: "exploration"},
	"C10": {node: true, quickRuns: 4000, thoroughSec: 720, batch: 200, level: "exploration"},
	"C11": {node: true, quickRuns: 3500, thoroughSec: 720, batch: 200, level: "exploration"},
	"C12": {node: true, quickRuns: 3500, thoroughSec: 720, batch: 200, level: "exploration"},
	"C13": {node: true, quickRuns: 1800, thoroughSec: 720, batch: 200, level: "exploration"},
	"C14": {node: true, quickRuns: 4000, thoroughSec: 720, batch: 200, level: "exploration"},
	"C15": {node: true, quickRuns: 800, thoroughSec: 720, batch: 4, level: "exploration", race: true},
	"C16": {node: true, quickRuns: 2200, thoroughSec: 720, batch: 150, level: "exploration"},
	"C20": {quickRuns: 3000, thoroughSec: 600, batch: 300, level: "fault_enumeration"},
}

func mix(a, b uint64) uint64 {
	x := a*0x9e3779b97f4a7c15 + b + 0x7f4a7c15
	x = (x ^ (x >> 30)) * 0xbf58476d1ce4e5b9
	x = (x ^ (x >> 27)) * 0x94d049bb133111eb
	return x ^ (x >> 31)
}

func propSalt(p string) uint64 {
	var h uint64 = 1469598103934665603
	for i := 0; i < len(p); i++ {
		h = (h ^ uint64(p[i])) * 1099511628211
	}
	return h
}

// ---------------------------------------------------------------------------
// build

type buildInfo struct {
	bin    string
	tree   string
	probes []string
	stats  map[string]int
}

func build(race bool) *buildInfo {
	t0 := time.Now()
	var err error
	base := os.Getenv("VERIF_SCRATCH")
	if base == "" {
		base = "/var/tmp"
	}
	scratch, err = os.MkdirTemp(base, "verif.")
	if err != nil {
		die2("scratch dir: %v", err)
	}
	res, err := instr.Run(repoDir, filepath.Join(scratch, "ov"))
	if err != nil {
		die2("instrumenter failed on the current tree: %v", err)
	}
	// fingerprint of the tree under test: instrumented sources + the codec packages
	h := sha256.New()
	files, _ := filepath.Glob(filepath.Join(scratch, "ov", "*.go"))
	for _, d := range []string{"frame", "message", "dialect", "streamwriter", "timednetconn", "tlog", "x25"} {
		more, _ := filepath.Glob(filepath.Join(repoDir, "pkg", d, "*.go"))
		for _, m := range more {
			if !strings.HasSuffix(m, "_test.go") {
				files = append(files, m)
			}
		}
	}
	sort.Strings(files)
	for _, f := range files {
		b, _ := os.ReadFile(f)
		h.Write(b)
	}
	bi := &buildInfo{bin: filepath.Join(scratch, "sim.test"), tree: hex.EncodeToString(h.Sum(nil))[:16], probes: res.Probes, stats: res.Stats}
	args := []string{"test", "-c", "-o", bi.bin, "-tags", "verif", "-overlay", res.Overlay}
	if race {
		args = append(args, "-race")
	}
	args = append(args, "./simtest")
	cmd := exec.Command(goBin, args...)
	cmd.Dir = verifDir
	cmd.Env = goEnv()
	out, err := cmd.CombinedOutput()
	if err != nil {
		die2("build of the instrumented worker failed: %v\n%s", err, out)
	}
	fmt.Printf("build: instrumented %d files (%s) tree=%s race=%v in %.1fs\n", res.Files, statStr(res.Stats), bi.tree, race, time.Since(t0).Seconds())
	return bi
}

func statStr(m map[string]int) string {
	var ks []string
	for k := range m {
		ks = append(ks, k)
	}
	sort.Strings(ks)
	var parts []string
	for _, k := range ks {
		parts = append(parts, fmt.Sprintf("%s=%d", k, m[k]))
	}
	return strings.Join(parts, " ")
}

// ---------------------------------------------------------------------------
// workers

func workerCmd(bi *buildInfo, j job, procs int) *exec.Cmd {
	js, _ := json.Marshal(j)
	cmd := exec.Command(bi.bin, "-test.run", "^TestWorker$", "-test.timeout", "0", "-test.count", "1")
	cmd.Env = append(os.Environ(), "VERIF_JOB="+string(js), "GOMAXPROCS="+strconv.Itoa(procs), "GORACE=halt_on_error=0 history_size=4")
	cmd.Dir = scratch
	return cmd
}

// runBatch executes seeds in one worker process and returns the outputs.
func runBatch(bi *buildInfo, prop string, seeds []uint64, procs int, wantTrace, wantHist bool) (outs []runOut, stderr string, err error) {
	cmd := workerCmd(bi, job{Prop: prop, Mode: "gen", Seeds: seeds, WantTrace: wantTrace, WantHist: wantHist}, procs)
	var errb strings.Builder
	cmd.Stderr = &errb
	stdout, _ := cmd.StdoutPipe()
	if err := cmd.Start(); err != nil {
		return nil, "", err
	}
	last := time.Now()
	var mu sync.Mutex
	doneCh := make(chan struct{})
	go func() { // watchdog: no output for a long time
		tk := time.NewTicker(5 * time.Second)
		defer tk.Stop()
		for {
			select {
			case <-doneCh:
				return
			case <-tk.C:
				mu.Lock()
				idle := time.Since(last)
				mu.Unlock()
				if idle > 300*time.Second {
					cmd.Process.Kill()
					return
				}
			}
		}
	}()
	sc := bufio.NewScanner(stdout)
	sc.Buffer(make([]byte, 1<<20), 1<<28)
	done := false
	var other []string
	for sc.Scan() {
		line := sc.Text()
		mu.Lock()
		last = time.Now()
		mu.Unlock()
		switch {
		case strings.HasPrefix(line, "RUN "):
			var o runOut
			if e := json.Unmarshal([]byte(line[4:]), &o); e != nil {
				other = append(other, "unparsable: "+line)
				continue
			}
			outs = append(outs, o)
		case line == "WORKER-DONE":
			done = true
		default:
			other = append(other, line)
		}
	}
	werr := cmd.Wait()
	close(doneCh)
	stderr = errb.String() + strings.Join(other, "\n")
	if !done {
		next := uint64(0)
		if len(outs) < len(seeds) {
			next = seeds[len(outs)]
		}
		return outs, stderr, fmt.Errorf("worker ended early (%v) after %d/%d runs; the run in progress had seed %d", werr, len(outs), len(seeds), next)
	}
	return outs, stderr, nil
}

// replayPool keeps replay workers alive for the shrinker.
type replayWorker struct {
	cmd *exec.Cmd
	in  io.WriteCloser
	out *bufio.Scanner
}

func startReplayWorker(bi *buildInfo, prop string) (*replayWorker, error) {
	cmd := workerCmd(bi, job{Prop: prop, Mode: "replay", WantHist: os.Getenv("VERIF_SHOW_HISTORY") != ""}, 2)
	in, _ := cmd.StdinPipe()
	stdout, _ := cmd.StdoutPipe()
	cmd.Stderr = nil
	if err := cmd.Start(); err != nil {
		return nil, err
	}
	sc := bufio.NewScanner(stdout)
	sc.Buffer(make([]byte, 1<<20), 1<<28)
	return &replayWorker{cmd: cmd, in: in, out: sc}, nil
}

func (w *replayWorker) run(c cand) (*runOut, error) {
	b, _ := json.Marshal(c)
	if _, err := w.in.Write(append(b, '\n')); err != nil {
		return nil, err
	}
	for w.out.Scan() {
		line := w.out.Text()
		if strings.HasPrefix(line, "RUN ") {
			var o runOut
			if err := json.Unmarshal([]byte(line[4:]), &o); err != nil {
				return nil, err
			}
			return &o, nil
		}
	}
	return nil, fmt.Errorf("replay worker died")
}

func (w *replayWorker) stop() {
	w.in.Close()
	done := make(chan struct{})
	go func() { w.cmd.Wait(); close(done) }()
	select {
	case <-done:
	case <-time.After(5 * time.Second):
		w.cmd.Process.Kill()
	}
}

// replayOnce runs one candidate in a fresh process with a timeout.
func replayOnce(bi *buildInfo, prop string, c cand, timeout time.Duration) (*runOut, error) {
	w, err := startReplayWorker(bi, prop)
	if err != nil {
		return nil, err
	}
	type res struct {
		o *runOut
		e error
	}
	ch := make(chan res, 1)
	go func() { o, e := w.run(c); ch <- res{o, e} }()
	select {
	case r := <-ch:
		w.stop()
		return r.o, r.e
	case <-time.After(timeout):
		w.cmd.Process.Kill()
		return nil, fmt.Errorf("replay timed out after %v", timeout)
	}
}

// ---------------------------------------------------------------------------
// shrinking: choice-level minimisation; a candidate is kept when the same oracle fires.

func hasOracle(o *runOut, oracle string) bool {
	if o == nil || len(o.EngineErr) > 0 {
		return false
	}
	for _, f := range o.Failures {
		if f.Oracle == oracle {
			return true
		}
	}
	return false
}

func shrink(bi *buildInfo, prop string, seed uint64, oracle string, choices []uint32, budget time.Duration, maxCand int) ([]uint32, *runOut, int) {
	const par = 12
	var pool []*replayWorker
	for i := 0; i < par; i++ {
		w, err := startReplayWorker(bi, prop)
		if err != nil {
			break
		}
		pool = append(pool, w)
	}
	defer func() {
		for _, w := range pool {
			w.stop()
		}
	}()
	if len(pool) == 0 {
		return choices, nil, 0
	}
	deadline := time.Now().Add(budget)
	tried := 0
	best := append([]uint32(nil), choices...)
	var bestOut *runOut
	if o, err := pool[0].run(cand{Seed: seed, Choices: best}); err == nil && hasOracle(o, oracle) {
		bestOut = o
		best = append([]uint32(nil), o.Choices...)
	}
	perCand := 20 * time.Second

	// try evaluates candidates in parallel and returns the first (lowest index) that keeps the oracle
	try := func(cands [][]uint32) bool {
		for len(cands) > 0 {
			if time.Now().After(deadline) || tried >= maxCand {
				return false
			}
			n := len(cands)
			if n > len(pool) {
				n = len(pool)
			}
			outs := make([]*runOut, n)
			var wg sync.WaitGroup
			for i := 0; i < n; i++ {
				wg.Add(1)
				go func(i int) {
					defer wg.Done()
					ch := make(chan *runOut, 1)
					go func() { o, _ := pool[i].run(cand{ID: i, Seed: seed, Choices: cands[i]}); ch <- o }()
					select {
					case o := <-ch:
						outs[i] = o
					case <-time.After(perCand):
						pool[i].cmd.Process.Kill()
						if w, err := startReplayWorker(bi, prop); err == nil {
							pool[i] = w
						}
					}
				}(i)
			}
			wg.Wait()
			tried += n
			for i := 0; i < n; i++ {
				if hasOracle(outs[i], oracle) {
					// normalise: the choices actually drawn by the run
					nb := outs[i].Choices
					if len(nb) < len(best) || (len(nb) == len(best) && lexLess(nb, best)) {
						best = append([]uint32(nil), nb...)
						bestOut = outs[i]
						return true
					}
				}
			}
			cands = cands[n:]
		}
		return false
	}

	// 0. truncation: choices beyond the end replay as 0 (= the simplest alternative), so a prefix
	// is "same beginning, then no faults / lowest task / source order". Search the shortest one.
	for round := 0; round < 6 && len(best) > 8; round++ {
		var cands [][]uint32
		n := len(best)
		for _, num := range []int{0, 1, 2, 3, 4, 5, 6, 7, 8, 9, 10, 11} {
			k := n * num / 12
			cands = append(cands, append([]uint32(nil), best[:k]...))
		}
		if !try(cands) {
			break
		}
	}
	// 0b. kind-aware simplification: all select orders in source order, all map iterations in
	// sorted order, no stalls, all random bytes zero, always the lowest runnable task
	kindPass := func() {
		if bestOut == nil || len(bestOut.Kinds) != len(best) {
			return
		}
		kinds := bestOut.Kinds
		var cands [][]uint32
		for _, k := range []byte{'l', 'm', 't', 'r', 's'} {
			c := append([]uint32(nil), best...)
			changed := false
			for i := range c {
				if kinds[i] == k && c[i] != 0 {
					c[i] = 0
					changed = true
				}
			}
			if changed {
				cands = append(cands, c)
			}
		}
		// halves of the scheduling choices
		for _, part := range [][2]int{{0, 2}, {1, 2}, {1, 4}, {3, 4}} {
			c := append([]uint32(nil), best...)
			lo, hi := len(c)*part[0]/part[1], len(c)
			if part[0] == 0 {
				lo, hi = 0, len(c)/part[1]
			}
			changed := false
			for i := lo; i < hi; i++ {
				if kinds[i] == 's' && c[i] != 0 {
					c[i] = 0
					changed = true
				}
			}
			if changed {
				cands = append(cands, c)
			}
		}
		for try(cands) {
			if bestOut == nil || len(bestOut.Kinds) != len(best) {
				return
			}
			kinds = bestOut.Kinds
			cands = cands[:0]
			for _, k := range []byte{'l', 'm', 't', 'r', 's'} {
				c := append([]uint32(nil), best...)
				changed := false
				for i := range c {
					if kinds[i] == k && c[i] != 0 {
						c[i] = 0
						changed = true
					}
				}
				if changed {
					cands = append(cands, c)
				}
			}
		}
	}
	kindPass()
	improved := true
	for improved && time.Now().Before(deadline) && tried < maxCand {
		improved = false
		// 1. drop blocks (large to small)
		for size := len(best) / 2; size >= 1; size /= 2 {
			for again := true; again; {
				again = false
				var cands [][]uint32
				for start := 0; start+size <= len(best); start += size {
					c := append(append([]uint32(nil), best[:start]...), best[start+size:]...)
					cands = append(cands, c)
					if len(cands) >= 48 {
						break
					}
				}
				if try(cands) {
					improved, again = true, true
				}
			}
			if time.Now().After(deadline) || tried >= maxCand {
				break
			}
		}
		// 2. zero blocks
		for size := len(best) / 2; size >= 1; size /= 2 {
			var cands [][]uint32
			for start := 0; start+size <= len(best); start += size {
				nz := false
				for _, v := range best[start : start+size] {
					if v != 0 {
						nz = true
					}
				}
				if !nz {
					continue
				}
				c := append([]uint32(nil), best...)
				for k := start; k < start+size; k++ {
					c[k] = 0
				}
				cands = append(cands, c)
				if len(cands) >= 48 {
					break
				}
			}
			if try(cands) {
				improved = true
			}
			if time.Now().After(deadline) || tried >= maxCand {
				break
			}
		}
		// 3. lower single values
		var cands [][]uint32
		for i, v := range best {
			if v > 1 {
				c := append([]uint32(nil), best...)
				c[i] = v / 2
				cands = append(cands, c)
			}
			if len(cands) >= 36 {
				break
			}
		}
		if try(cands) {
			improved = true
		}
	}
	return best, bestOut, tried
}

func lexLess(a, b []uint32) bool {
	for i := range a {
		if i >= len(b) {
			return false
		}
		if a[i] != b[i] {
			return a[i] < b[i]
		}
	}
	return false
}

// ---------------------------------------------------------------------------
// known findings

func loadFindings() []finding {
	b, err := os.ReadFile(filepath.Join(verifDir, "known_findings.json"))
	if err != nil {
		return nil
	}
	var fs []finding
	if err := json.Unmarshal(b, &fs); err != nil {
		die2("known_findings.json: %v", err)
	}
	return fs
}

func matchFinding(fs []finding, prop string, f failure) *finding {
	for i := range fs {
		k := &fs[i]
		if k.Status == "open" && k.Property == prop && k.Oracle == f.Oracle && strings.Contains(f.Msg, k.Match) {
			return k
		}
	}
	return nil
}

// ---------------------------------------------------------------------------
// check

type agg struct {
	runs, nontrivial, steps int
	simNS                   int64
	wallUS                  int64
	distinct                map[string]struct{}
	distinctSched           map[string]struct{}
	probes                  map[string]int
	strategies              map[string]int
	interleaved             int
	stalls                  int
	maxRunnable             int
	tasks                   int
	samples                 []any
}

func main() {
	if len(os.Args) < 2 {
		fmt.Fprintln(os.Stderr, "usage: vcheck <property> quick|thorough | replay <file> | selftest <property> [n] | history <property> <seed>")
		os.Exit(2)
	}
	defer cleanup()
	switch os.Args[1] {
	case "replay":
		if len(os.Args) < 3 {
			die2("replay needs a file")
		}
		os.Exit(doReplay(os.Args[2]))
	case "selftest":
		n := 40
		if len(os.Args) > 3 {
			n, _ = strconv.Atoi(os.Args[3])
		}
		os.Exit(doSelftest(os.Args[2], n))
	case "warm":
		build(false)
		cleanup()
		build(true)
		cleanup()
		fmt.Println("warm: build cache filled")
		os.Exit(0)
	case "history":
		seed, _ := strconv.ParseUint(os.Args[3], 10, 64)
		os.Exit(doHistory(os.Args[2], seed))
	default:
		tier := "quick"
		if len(os.Args) > 2 {
			tier = os.Args[2]
		}
		code := doCheck(os.Args[1], tier)
		cleanup()
		os.Exit(code)
	}
}

func baseSeed() uint64 {
	if s := os.Getenv("VERIF_SEED"); s != "" {
		if v, err := strconv.ParseUint(s, 10, 64); err == nil {
			return v
		}
		if v, err := strconv.ParseInt(s, 10, 64); err == nil {
			return uint64(v)
		}
	}
	return 1
}

func envInt(name string, def int) int {
	if s := os.Getenv(name); s != "" {
		if v, err := strconv.Atoi(s); err == nil {
			return v
		}
	}
	return def
}

func doCheck(prop, tier string) int {
	if tier == "thorough" {
		os.Setenv("VERIF_DEPTH", "deep") // workers inherit it: larger deployments, longer histories
	} else {
		os.Unsetenv("VERIF_DEPTH")
	}
	meta, ok := metas[prop]
	if !ok {
		die2("unknown or unclaimed property %q", prop)
	}
	t0 := time.Now()
	bi := build(meta.race)
	base := baseSeed()
	salt := propSalt(prop)
	workers := envInt("VERIF_WORKERS", 16)
	quickRuns := envInt("VERIF_RUNS", meta.quickRuns)
	budget := time.Duration(envInt("VERIF_THOROUGH_SEC", meta.thoroughSec)) * time.Second

	a := &agg{distinct: map[string]struct{}{}, distinctSched: map[string]struct{}{}, probes: map[string]int{}, strategies: map[string]int{}}
	var failing []runOut
	var infra []string
	var mu sync.Mutex
	next := 0
	stop := false
	genStart := time.Now()

	take := func() []uint64 {
		mu.Lock()
		defer mu.Unlock()
		if stop {
			return nil
		}
		if tier == "quick" && next >= quickRuns {
			return nil
		}
		if tier != "quick" && time.Since(genStart) > budget {
			return nil
		}
		n := meta.batch
		if meta.race {
			n = 1
		} else if tier == "quick" {
			// small batches: a few long runs must not leave most workers idle
			if b := quickRuns / (workers * 6); b < n {
				n = b
			}
			if n < 8 {
				n = 8
			}
		}
		if tier == "quick" && next+n > quickRuns {
			n = quickRuns - next
		}
		seeds := make([]uint64, n)
		for i := range seeds {
			seeds[i] = mix(mix(base, salt), uint64(next+i))
		}
		next += n
		return seeds
	}
	var wg sync.WaitGroup
	for w := 0; w < workers; w++ {
		wg.Add(1)
		go func() {
			defer wg.Done()
			for {
				seeds := take()
				if seeds == nil {
					return
				}
				outs, stderr, err := runBatch(bi, prop, seeds, 2, false, false)
				mu.Lock()
				for i := range outs {
					o := &outs[i]
					a.add(o)
					if len(o.EngineErr) > 0 {
						infra = append(infra, fmt.Sprintf("seed %d: %s", o.Seed, strings.Join(o.EngineErr, "; ")))
					} else if len(o.Failures) > 0 {
						failing = append(failing, *o)
						if len(failing) >= 40 {
							stop = true
						}
					}
				}
				if err != nil && meta.race && strings.Contains(stderr, "WARNING: DATA RACE") {
					// the testing package aborts a test at the first race report: one process per
					// seed in race mode, the report belongs to that seed
					err = nil
				}
				if err != nil {
					infra = append(infra, err.Error()+"\n"+tail(stderr, 4000))
					stop = true
				}
				if meta.race {
					for _, r := range raceReports(stderr) {
						if strings.HasPrefix(r, "HARNESS-RACE") {
							infra = append(infra, fmt.Sprintf("race report entirely inside the harness (batch starting at seed %d): %s", seeds[0], r))
							continue
						}
						failing = append(failing, runOut{Seed: seeds[0], NChoices: len(seeds), Failures: []failure{{Oracle: "data-race",
							Msg: fmt.Sprintf("seeds of the batch: %v\n%s", seeds, r)}}})
					}
				}
				mu.Unlock()
			}
		}()
	}
	wg.Wait()
	genWall := time.Since(genStart)

	findings := loadFindings()
	violations := 0
	exit := 0
	var reported []string
	if len(infra) > 0 {
		fmt.Printf("INFRA-ERROR property=%s %d run(s) hit engine/harness errors; first: %s\n", prop, len(infra), infra[0])
		exit = 2
	}
	// group failures by (oracle, known?) and report one minimised replay per unknown oracle
	sort.Slice(failing, func(i, j int) bool {
		if failing[i].NChoices != failing[j].NChoices {
			return failing[i].NChoices < failing[j].NChoices
		}
		return failing[i].Seed < failing[j].Seed
	})
	seenOracle := map[string]bool{}
	knownPrinted := map[string]bool{}
	for _, o := range failing {
		for _, f := range o.Failures {
			if k := matchFinding(findings, prop, f); k != nil {
				if !knownPrinted[k.Text] {
					knownPrinted[k.Text] = true
					fmt.Printf("KNOWN-FINDING: property=%s %s (e.g. seed %d: %s)\n", prop, k.Text, o.Seed, firstLine(f.Msg))
				}
				continue
			}
			violations++
			if seenOracle[f.Oracle] || len(reported) >= envInt("VERIF_MAX_REPORT", 3) {
				continue
			}
			seenOracle[f.Oracle] = true
			path := reportViolation(bi, prop, tier, o, f)
			if path == "" {
				exit = 2 // the failure did not replay: nothing is reported as a violation
				continue
			}
			reported = append(reported, path)
		}
	}
	if len(reported) > 0 {
		// a violation that replays in a fresh process stands, whatever else went wrong in other runs
		// (a change that makes some runs spin until the step budget also breaks oracles in others)
		exit = 1
	}
	writeEvidence(prop, tier, base, meta, a, bi, time.Since(t0), genWall, violations, len(infra), knownPrinted)
	if exit == 0 {
		fmt.Printf("OK property=%s tier=%s runs=%d nontrivial=%d distinct=%d wall=%.1fs\n", prop, tier, a.runs, a.nontrivial, len(a.distinct), time.Since(t0).Seconds())
	}
	return exit
}

func firstLine(s string) string {
	if i := strings.IndexByte(s, '\n'); i >= 0 {
		s = s[:i]
	}
	if len(s) > 300 {
		s = s[:300] + "..."
	}
	return s
}

func tail(s string, n int) string {
	if len(s) > n {
		return "..." + s[len(s)-n:]
	}
	return s
}

func (a *agg) add(o *runOut) {
	a.runs++
	a.steps += o.Steps
	a.simNS += o.SimNS
	a.wallUS += o.WallUS
	a.strategies[o.Strategy]++
	a.stalls += o.Stalls
	if o.MaxRun > a.maxRunnable {
		a.maxRunnable = o.MaxRun
	}
	a.tasks += o.Tasks
	if o.Interleave > 0 {
		a.interleaved++
	}
	for k, v := range o.Probes {
		a.probes[k] += v
	}
	a.distinctSched[o.SchedHash] = struct{}{}
	if o.Nontrivial {
		a.nontrivial++
		a.distinct[o.Digest] = struct{}{}
	}
}

func reportViolation(bi *buildInfo, prop, tier string, o runOut, f failure) string {
	choices := o.Choices
	rf := replayFile{Property: prop, Seed: o.Seed, Tier: tier, Oracle: f.Oracle, Message: f.Msg, Digest: o.Digest,
		Steps: o.Steps, Strategy: o.Strategy, Tree: bi.tree, Original: len(choices), Choices: choices, Kinds: o.Kinds}
	if f.Oracle != "data-race" && len(choices) > 0 {
		// confirm the replay reproduces, then minimise
		first, err := replayOnce(bi, prop, cand{Seed: o.Seed, Choices: choices}, 120*time.Second)
		if err != nil || !hasOracle(first, f.Oracle) {
			fmt.Printf("INFRA-ERROR property=%s seed=%d: the recorded choices do not reproduce oracle %q in a fresh process (%v) — engine nondeterminism\n", prop, o.Seed, f.Oracle, err)
			return ""
		} else {
			best, bo, tried := shrink(bi, prop, o.Seed, f.Oracle, choices, time.Duration(envInt("VERIF_SHRINK_SEC", 90))*time.Second, 600)
			rf.Shrunk = tried
			if bo != nil {
				rf.Choices, rf.Kinds, rf.Digest, rf.Steps = best, bo.Kinds, bo.Digest, bo.Steps
				for _, bf := range bo.Failures {
					if bf.Oracle == f.Oracle {
						rf.Message = bf.Msg
					}
				}
				// the minimised file must fail the same way in a fresh process
				again, err := replayOnce(bi, prop, cand{Seed: o.Seed, Choices: best}, 120*time.Second)
				if err != nil || !hasOracle(again, f.Oracle) || again.Digest != bo.Digest {
					rf.Choices, rf.Kinds, rf.Digest, rf.Steps, rf.Message = choices, o.Kinds, o.Digest, o.Steps, f.Msg
				}
			}
		}
	}
	os.MkdirAll(filepath.Join(verifDir, "replays"), 0o755)
	path := filepath.Join(verifDir, "replays", fmt.Sprintf("%s-%d-%s.json", prop, o.Seed, sanitize(f.Oracle)))
	b, _ := json.MarshalIndent(rf, "", " ")
	os.WriteFile(path, b, 0o644)
	fmt.Printf("VIOLATION property=%s replay=%s\n", prop, path)
	fmt.Printf("  oracle=%s seed=%d choices=%d (from %d, %d shrink candidates) steps=%d\n  %s\n", f.Oracle, o.Seed, len(rf.Choices), rf.Original, rf.Shrunk, rf.Steps,
		strings.ReplaceAll(tail(rf.Message, 3000), "\n", "\n  "))
	return path
}

func sanitize(s string) string {
	var b strings.Builder
	for _, r := range s {
		if (r >= 'a' && r <= 'z') || (r >= 'A' && r <= 'Z') || (r >= '0' && r <= '9') || r == '-' {
			b.WriteRune(r)
		} else {
			b.WriteByte('_')
		}
	}
	return b.String()
}

// raceReports extracts race detector reports. A report is attributed to the repository when at
// least one of its two conflicting accesses is performed by code of the module under test (the
// innermost frame that is not runtime / standard library decides); a report whose two accesses
// are both performed by harness code is a harness race (infrastructure error).
func raceReports(stderr string) []string {
	var out []string
	parts := strings.Split(stderr, "WARNING: DATA RACE")
	for _, p := range parts[1:] {
		end := strings.Index(p, "==================")
		if end >= 0 {
			p = p[:end]
		}
		repo := false
		// the first two stanzas ("Read at ..."/"Write at ..." and "Previous ...") are the accesses
		stanzas := strings.Split(p, "\n\n")
		n := 0
		for _, st := range stanzas {
			t := strings.TrimSpace(st)
			if !(strings.HasPrefix(t, "Read at") || strings.HasPrefix(t, "Write at") || strings.HasPrefix(t, "Previous ") ||
				strings.HasPrefix(t, "Atomic")) {
				continue
			}
			n++
			for _, line := range strings.Split(t, "\n")[1:] {
				fn := strings.TrimSpace(line)
				if fn == "" || strings.HasPrefix(fn, "/") {
					continue // file:line
				}
				if strings.HasPrefix(fn, "runtime.") || strings.HasPrefix(fn, "internal/") || strings.HasPrefix(fn, "sync.") ||
					strings.HasPrefix(fn, "sync/") || strings.HasPrefix(fn, "reflect.") || !strings.Contains(fn, "/") {
					continue // runtime and standard library frames: look at the caller
				}
				if strings.HasPrefix(fn, "github.com/bluenviron/gomavlib/v3") {
					repo = true
				}
				break
			}
			if n == 2 {
				break
			}
		}
		if repo {
			out = append(out, "DATA RACE"+tail(p, 6000))
		} else {
			out = append(out, "HARNESS-RACE"+tail(p, 3000))
		}
	}
	return out
}

func doReplay(path string) int {
	b, err := os.ReadFile(path)
	if err != nil {
		die2("%v", err)
	}
	var rf replayFile
	if err := json.Unmarshal(b, &rf); err != nil {
		die2("replay file: %v", err)
	}
	meta, ok := metas[rf.Property]
	if !ok {
		die2("unknown property %q", rf.Property)
	}
	if rf.Tier == "thorough" {
		os.Setenv("VERIF_DEPTH", "deep")
	} else {
		os.Unsetenv("VERIF_DEPTH")
	}
	bi := build(meta.race)
	if rf.Oracle == "data-race" {
		_, stderr, _ := runBatch(bi, rf.Property, []uint64{rf.Seed}, 2, false, false)
		for _, r := range raceReports(stderr) {
			if !strings.HasPrefix(r, "HARNESS-RACE") {
				fmt.Printf("VIOLATION property=%s replay=%s\n  reproduced oracle=data-race with seed %d\n  %s\n", rf.Property, path, rf.Seed, strings.ReplaceAll(tail(r, 4000), "\n", "\n  "))
				return 1
			}
		}
		fmt.Printf("NOT-REPRODUCED property=%s oracle=data-race seed=%d on tree %s\n", rf.Property, rf.Seed, bi.tree)
		return 0
	}
	o, err := replayOnce(bi, rf.Property, cand{Seed: rf.Seed, Choices: rf.Choices}, 300*time.Second)
	if err != nil {
		die2("replay: %v", err)
	}
	if len(o.EngineErr) > 0 {
		die2("replay hit an engine error: %s", strings.Join(o.EngineErr, "; "))
	}
	if os.Getenv("VERIF_SHOW_HISTORY") != "" {
		for _, l := range o.History {
			fmt.Println(l)
		}
		fmt.Printf("live=%v steps=%d\n", o.Live, o.Steps)
	}
	if hasOracle(o, rf.Oracle) {
		same := "digest identical to the recorded run"
		if o.Digest != rf.Digest {
			same = fmt.Sprintf("digest %s differs from the recorded %s (tree %s vs recorded %s)", o.Digest, rf.Digest, bi.tree, rf.Tree)
		}
		fmt.Printf("VIOLATION property=%s replay=%s\n  reproduced oracle=%s; %s\n", rf.Property, path, rf.Oracle, same)
		for _, f := range o.Failures {
			fmt.Printf("  %s: %s\n", f.Oracle, strings.ReplaceAll(tail(f.Msg, 3000), "\n", "\n  "))
		}
		return 1
	}
	fmt.Printf("NOT-REPRODUCED property=%s oracle=%s on tree %s (recorded on %s); failures now: %v\n", rf.Property, rf.Oracle, bi.tree, rf.Tree, o.Failures)
	return 0
}

func doHistory(prop string, seed uint64) int {
	meta := metas[prop]
	bi := build(meta.race)
	outs, stderr, err := runBatch(bi, prop, []uint64{seed}, 2, true, true)
	if err != nil {
		fmt.Println(stderr)
		die2("%v", err)
	}
	for _, o := range outs {
		for _, l := range o.History {
			fmt.Println(l)
		}
		fmt.Printf("seed=%d steps=%d sim=%v strategy=%s digest=%s choices=%d live=%v\n", o.Seed, o.Steps, time.Duration(o.SimNS), o.Strategy, o.Digest, o.NChoices, o.Live)
		for _, f := range o.Failures {
			fmt.Printf("FAIL %s: %s\n", f.Oracle, f.Msg)
		}
		for _, e := range o.EngineErr {
			fmt.Printf("ENGINE %s\n", e)
		}
		var ks []string
		for k := range o.Probes {
			ks = append(ks, k)
		}
		sort.Strings(ks)
		for _, k := range ks {
			fmt.Printf("probe %-40s %d\n", k, o.Probes[k])
		}
	}
	return 0
}

// doSelftest: the same seeds executed in separate processes at GOMAXPROCS 1, 4, 16 must give
// identical digests.
func doSelftest(prop string, n int) int {
	meta := metas[prop]
	bi := build(meta.race)
	seeds := make([]uint64, n)
	for i := range seeds {
		seeds[i] = mix(mix(baseSeed(), propSalt(prop)), uint64(i))
	}
	type res struct {
		outs []runOut
		err  error
		errs string
	}
	configs := []int{1, 4, 16, 2, 8}
	results := make([]res, len(configs))
	var wg sync.WaitGroup
	for i, p := range configs {
		wg.Add(1)
		go func(i, p int) {
			defer wg.Done()
			o, s, e := runBatch(bi, prop, seeds, p, false, false)
			results[i] = res{o, e, s}
		}(i, p)
	}
	wg.Wait()
	bad := 0
	for i, r := range results {
		if r.err != nil {
			fmt.Printf("selftest: GOMAXPROCS=%d: %v\n%s\n", configs[i], r.err, tail(r.errs, 2000))
			return 2
		}
	}
	distinct := map[string]bool{}
	for k := 0; k < n; k++ {
		d0 := results[0].outs[k].Digest
		distinct[d0] = true
		for i := 1; i < len(results); i++ {
			if results[i].outs[k].Digest != d0 {
				bad++
				fmt.Printf("selftest: seed %d: digest %s at GOMAXPROCS=%d vs %s at GOMAXPROCS=%d\n", seeds[k], d0, configs[0], results[i].outs[k].Digest, configs[i])
			}
		}
	}
	fmt.Printf("selftest %s: %d seeds x %d processes, %d distinct digests, %d mismatches\n", prop, n, len(configs), len(distinct), bad)
	if bad > 0 {
		return 2
	}
	return 0
}

// ---------------------------------------------------------------------------
// evidence

func writeEvidence(prop, tier string, seed uint64, meta propMeta, a *agg, bi *buildInfo, wall, genWall time.Duration, violations, infra int, known map[string]bool) {
	var zero []string
	hit := 0
	probes := bi.probes
	if !meta.node {
		probes = nil
	}
	for _, p := range probes {
		if a.probes[p] == 0 {
			zero = append(zero, p)
		} else {
			hit++
		}
	}
	faults := map[string]int{}
	cov := map[string]int{}
	for k, v := range a.probes {
		if strings.HasPrefix(k, "fault:") {
			faults[k[6:]] = v
		} else if strings.HasPrefix(k, "cov:") {
			cov[k[4:]] = v
		}
	}
	var knownList []string
	for k := range known {
		knownList = append(knownList, k)
	}
	sort.Strings(knownList)
	rule, samples, real, stub := propDoc(bi, prop)
	perHour := 0.0
	if genWall > 0 {
		perHour = float64(a.runs) / genWall.Hours()
	}
	ev := map[string]any{
		"property_id": prop,
		"tier":        tier,
		"seed":        int64(seed),
		"level":       meta.level,
		"wall_s":      wall.Seconds(),
		"violations":  violations,
		"coverage": map[string]any{
			"evaluations":                a.runs,
			"distinct_nontrivial":        len(a.distinct),
			"rule":                       rule,
			"samples":                    samples,
			"nontrivial_runs":            a.nontrivial,
			"distinct_schedules":         len(a.distinctSched),
			"runs_with_interleaving":     a.interleaved,
			"runs_per_hour":              perHour,
			"simulated_seconds":          float64(a.simNS) / 1e9,
			"steps":                      a.steps,
			"tasks_spawned":              a.tasks,
			"max_runnable_tasks":         a.maxRunnable,
			"stalls_injected":            a.stalls,
			"faults_fired":               faults,
			"coverage_probes":            cov,
			"strategies":                 a.strategies,
			"instrumented_branch_probes": map[string]any{"total": len(probes), "hit": hit, "never_hit": zero},
			"instrumentation":            bi.stats,
			"tree_fingerprint":           bi.tree,
			"engine_errors":              infra,
			"known_findings_printed":     knownList,
			"real_components":            real,
			"stub_components":            stub,
		},
		"assumptions": []string{
			"results are samples of an unbounded schedule/fault/input space: a clean batch is evidence, not proof",
			"the simulated transports model kernel sockets, pion's UDP listener and serial ports; stub fidelity bounds what is said about real kernels",
			"data-race freedom of package gomavlib between scheduling points (checked separately by C15) makes one choice list one execution",
			"the reference codec in /verif/ref is written from the MAVLink specification and self-checks against published CRC_EXTRA constants",
		},
	}
	os.MkdirAll(filepath.Join(verifDir, "evidence"), 0o755)
	b, _ := json.MarshalIndent(ev, "", " ")
	os.WriteFile(filepath.Join(verifDir, "evidence", prop+".json"), b, 0o644)
}

// propDoc asks the worker binary for the property's documentation and a few sample runs.
func propDoc(bi *buildInfo, prop string) (rule string, samples []any, real, stub []string) {
	cmd := exec.Command(bi.bin, "-test.run", "^TestDoc$", "-test.count", "1")
	cmd.Env = append(os.Environ(), "VERIF_DOC="+prop)
	cmd.Dir = scratch
	out, _ := cmd.Output()
	for _, line := range strings.Split(string(out), "\n") {
		if strings.HasPrefix(line, "DOC ") {
			var d struct {
				Rule string
				Real []string
				Stub []string
			}
			json.Unmarshal([]byte(line[4:]), &d)
			rule, real, stub = d.Rule, d.Real, d.Stub
		}
	}
	seeds := []uint64{mix(mix(baseSeed(), propSalt(prop)), 0), mix(mix(baseSeed(), propSalt(prop)), 1), mix(mix(baseSeed(), propSalt(prop)), 2)}
	outs, _, _ := runBatch(bi, prop, seeds, 2, true, true)
	for _, o := range outs {
		h := o.History
		if len(h) > 40 {
			h = append(append([]string(nil), h[:40]...), fmt.Sprintf("... (%d more records)", len(o.History)-40))
		}
		ch := o.Choices
		if len(ch) > 60 {
			ch = ch[:60]
		}
		samples = append(samples, map[string]any{"seed": o.Seed, "strategy": o.Strategy, "steps": o.Steps, "sim_s": float64(o.SimNS) / 1e9,
			"n_choices": o.NChoices, "first_choices": ch, "history_head": h})
	}
	if len(samples) == 0 {
		samples = []any{"(no sample could be produced)"}
	}
	return
}
