package world

import (
	"errors"
	"fmt"
	"io"
	"net"
	"sort"
	"sync"
	"time"

	"verif/dsim"
)

// ---------------------------------------------------------------------------
// datagram sockets

type dgram struct {
	data []byte
	from Addr
	at   time.Time
	seq  int
}

type inbox struct {
	mu     sync.Mutex
	q      []dgram
	wake   chan struct{}
	closed bool
	seq    int
}

func newInbox() *inbox { return &inbox{wake: make(chan struct{}, 1)} }

func (b *inbox) push(d dgram) {
	b.mu.Lock()
	if b.closed {
		b.mu.Unlock()
		return
	}
	b.seq++
	d.seq = b.seq
	b.q = append(b.q, d)
	sort.SliceStable(b.q, func(i, j int) bool {
		if !b.q[i].at.Equal(b.q[j].at) {
			return b.q[i].at.Before(b.q[j].at)
		}
		return b.q[i].seq < b.q[j].seq
	})
	b.mu.Unlock()
	poke(b.wake)
}

// pop returns the first datagram whose delivery time has come, or the time to wait for.
func (b *inbox) pop() (d dgram, ok bool, next time.Time, closed bool) {
	b.mu.Lock()
	defer b.mu.Unlock()
	now := time.Now()
	if len(b.q) > 0 && !b.q[0].at.After(now) {
		d = b.q[0]
		b.q = b.q[1:]
		return d, true, time.Time{}, false
	}
	if len(b.q) > 0 {
		next = b.q[0].at
	}
	return dgram{}, false, next, b.closed
}

func (b *inbox) close() {
	b.mu.Lock()
	b.closed = true
	b.mu.Unlock()
	poke(b.wake)
}

type udpSock struct {
	w         *World
	id        int
	name      string
	node      bool
	port      int
	connected bool
	remote    Addr
	in        *inbox
	demux     func(d dgram) // pion listener: datagrams are dispatched instead of queued

	mu        sync.Mutex
	closed    bool
	closedCh  chan struct{}
	rdl, wdl  time.Time
	bcast     int // broadcast port this socket listens to (peers), 0 none
	ReadErr   error
	ReadErrAt int
	ReadErrV  error
	NReads    int
	NWrites   int
	Sent      [][]byte
}

func (w *World) newSock(port int, node bool) *udpSock {
	w.mu.Lock()
	defer w.mu.Unlock()
	if port == 0 {
		w.nextPort++
		port = w.nextPort
	}
	w.nextConn++
	s := &udpSock{w: w, id: w.nextConn, node: node, port: port, in: newInbox(), closedCh: make(chan struct{})}
	s.name = fmt.Sprintf("udp#%d", s.id)
	w.udpBound[port] = s
	w.socks = append(w.socks, s)
	return s
}

func (w *World) bindUDP(address string, node bool) (*udpSock, error) {
	port, err := portOf(address)
	if err != nil {
		return nil, &net.OpError{Op: "listen", Net: "udp", Err: err}
	}
	w.mu.Lock()
	_, used := w.udpBound[port]
	w.mu.Unlock()
	if port != 0 && used {
		return nil, &net.OpError{Op: "listen", Net: "udp", Err: ErrAddrInUse}
	}
	s := w.newSock(port, node)
	rec("net", s.name+" udp bind", int64(s.id), int64(s.port))
	return s, nil
}

func (s *udpSock) isClosed() bool {
	s.mu.Lock()
	defer s.mu.Unlock()
	return s.closed
}

func (s *udpSock) local() Addr { return Addr{"udp", "127.0.0.1", s.port} }

func (s *udpSock) close() bool {
	s.mu.Lock()
	if s.closed {
		s.mu.Unlock()
		return false
	}
	s.closed = true
	close(s.closedCh)
	s.mu.Unlock()
	s.in.close()
	s.w.mu.Lock()
	if s.w.udpBound[s.port] == s {
		delete(s.w.udpBound, s.port)
	}
	s.w.mu.Unlock()
	rec("net", s.name+" udp close", int64(s.id), int64(s.port))
	return true
}

// trySend is send behind the write-fault hook of the world (node-side sockets only).
func (s *udpSock) trySend(to Addr, p []byte) error {
	if hook := s.w.UDPWriteHook; hook != nil && s.node {
		if err := hook(s.port, to.Port, p); err != nil {
			dsim.Probe("fault:write-error")
			rec("net", s.name+" write-fault", int64(s.id), int64(to.Port))
			return err
		}
	}
	s.send(to, p)
	return nil
}

// send puts a datagram on the simulated network (caller is the released task).
func (s *udpSock) send(to Addr, p []byte) {
	w := s.w
	f := w.UDP
	s.mu.Lock()
	s.NWrites++
	s.Sent = append(s.Sent, append([]byte(nil), p...))
	s.mu.Unlock()
	rec("net", s.name+" udp send", int64(s.id), int64(to.Port), int64(len(p)))
	if f.LossPm > 0 && dsim.Choose(1000) >= 1000-f.LossPm {
		dsim.Probe("fault:udp-loss")
		return
	}
	copies := 1
	if f.DupPm > 0 && dsim.Choose(1000) >= 1000-f.DupPm {
		dsim.Probe("fault:udp-dup")
		copies = 2
	}
	for i := 0; i < copies; i++ {
		data := append([]byte(nil), p...)
		at := time.Now()
		if f.DelayPm > 0 && f.MaxDelay > 0 && dsim.Choose(1000) >= 1000-f.DelayPm {
			dsim.Probe("fault:udp-delay")
			at = at.Add(time.Duration(1+dsim.Choose(1000)) * f.MaxDelay / 1000)
		}
		if f.CorruptPm > 0 && len(data) > 0 && dsim.Choose(1000) >= 1000-f.CorruptPm {
			dsim.Probe("fault:udp-corrupt")
			data[dsim.Choose(len(data))] ^= byte(1 << uint(dsim.Choose(8)))
		}
		w.deliver(s, to, dgram{data: data, from: s.local(), at: at})
	}
}

func (w *World) deliver(from *udpSock, to Addr, d dgram) {
	var dests []*udpSock
	w.mu.Lock()
	if len(to.IP) > 4 && to.IP[len(to.IP)-4:] == ".255" {
		for _, s := range w.socks {
			if s != from && s.bcast == to.Port && !s.isClosed() {
				dests = append(dests, s)
			}
		}
	} else if s := w.udpBound[to.Port]; s != nil {
		dests = append(dests, s)
	}
	w.mu.Unlock()
	if len(dests) == 0 {
		dsim.Probe("cov:udp-no-destination")
	}
	for _, s := range dests {
		if s.connected && s.remote.Port != d.from.Port {
			continue // a connected socket only hears its peer
		}
		s.mu.Lock()
		demux := s.demux
		s.mu.Unlock()
		if demux != nil {
			demux(d)
		} else {
			s.in.push(d)
		}
	}
}

// UDPPortOpen tells whether a socket is bound to port.
func (w *World) UDPPortOpen(port int) bool {
	w.mu.Lock()
	defer w.mu.Unlock()
	return w.udpBound[port] != nil
}

// recv blocks for the next datagram of an inbox, honouring deadline and close.
func recvFrom(name string, id int, in *inbox, dl func() time.Time, closedCh chan struct{}) (dgram, error) {
	for {
		// a deadline that has passed fails the call even when data is queued (as the runtime's poller does)
		if dl0 := dl(); !dl0.IsZero() && !time.Now().Before(dl0) {
			rec("net", name+" read timeout", int64(id))
			return dgram{}, timeoutError("read", "udp")
		}
		d, ok, next, closed := in.pop()
		if ok {
			return d, nil
		}
		if closed {
			return dgram{}, io.EOF
		}
		var tc <-chan time.Time
		deadline := dl()
		isDeadline := false
		wakeAt := next
		if !deadline.IsZero() && (wakeAt.IsZero() || deadline.Before(wakeAt)) {
			wakeAt = deadline
			isDeadline = true
		}
		var t *time.Timer
		if !wakeAt.IsZero() {
			dur := time.Until(wakeAt)
			if dur <= 0 {
				if isDeadline {
					rec("net", name+" read timeout", int64(id))
					return dgram{}, timeoutError("read", "udp")
				}
				continue
			}
			t = time.NewTimer(dur)
			tc = t.C
		}
		select {
		case <-in.wake:
		case <-closedCh:
			if t != nil {
				t.Stop()
			}
			return dgram{}, &net.OpError{Op: "read", Net: "udp", Err: errClosed}
		case <-tc:
			if isDeadline {
				rec("net", name+" read timeout", int64(id))
				return dgram{}, timeoutError("read", "udp")
			}
		}
		if t != nil {
			t.Stop()
		}
	}
}

// ---------------------------------------------------------------------------
// connected UDP socket (what the node's UDP client endpoint dials; also used by peers)

// UDPConn is a connected datagram socket.
type UDPConn struct{ s *udpSock }

// DialUDP is used by harness peers: a socket connected to a node port.
func (w *World) DialUDP(address string) (*UDPConn, error) {
	dsim.Yield("dial")
	port, err := portOf(address)
	if err != nil {
		return nil, err
	}
	s := w.newSock(0, false)
	s.connected = true
	s.remote = Addr{"udp", "127.0.0.1", port}
	rec("net", s.name+" udp dial(peer) "+address, int64(s.id), int64(port), int64(s.port))
	return &UDPConn{s}, nil
}

// ID is the socket's id in the transport log.
func (c *UDPConn) ID() int      { return c.s.id }
func (c *UDPConn) Name() string { return c.s.name }
func (c *UDPConn) Port() int    { return c.s.port }

func (c *UDPConn) Read(p []byte) (int, error) {
	dsim.Yield(c.s.name + ".Read")
	c.s.mu.Lock()
	c.s.NReads++
	e := c.s.ReadErr
	if e == nil && c.s.ReadErrAt > 0 && c.s.NReads >= c.s.ReadErrAt {
		e = c.s.ReadErrV
	}
	c.s.mu.Unlock()
	rec("net", c.s.name+" read-call", int64(c.s.id), 0, 0, nodeFlag(c.s.node))
	if e != nil {
		dsim.Probe("fault:read-error")
		rec("net", c.s.name+" read-fault", int64(c.s.id))
		return 0, e
	}
	if c.s.isClosed() {
		return 0, &net.OpError{Op: "read", Net: "udp", Err: errClosed}
	}
	d, err := recvFrom(c.s.name, c.s.id, c.s.in, func() time.Time {
		c.s.mu.Lock()
		defer c.s.mu.Unlock()
		return c.s.rdl
	}, c.s.closedCh)
	if err != nil {
		if errors.Is(err, io.EOF) {
			return 0, &net.OpError{Op: "read", Net: "udp", Err: errClosed}
		}
		return 0, err
	}
	n := copy(p, d.data) // a kernel silently truncates
	rec("net", c.s.name+" read", int64(c.s.id), int64(n))
	return n, nil
}

func (c *UDPConn) Write(p []byte) (int, error) {
	dsim.Yield(c.s.name + ".Write")
	if c.s.isClosed() {
		return 0, &net.OpError{Op: "write", Net: "udp", Err: errClosed}
	}
	rec("net", c.s.name+" write-call", int64(c.s.id), int64(len(p)), 0, nodeFlag(c.s.node))
	c.s.mu.Lock()
	wdl := c.s.wdl
	c.s.mu.Unlock()
	if !wdl.IsZero() && !time.Now().Before(wdl) {
		return 0, timeoutError("write", "udp")
	}
	if err := c.s.trySend(c.s.remote, p); err != nil {
		return 0, err
	}
	return len(p), nil
}

func (c *UDPConn) Close() error {
	dsim.Yield(c.s.name + ".Close")
	if !c.s.close() {
		return &net.OpError{Op: "close", Net: "udp", Err: errClosed}
	}
	return nil
}

func (c *UDPConn) LocalAddr() net.Addr  { return c.s.local() }
func (c *UDPConn) RemoteAddr() net.Addr { return c.s.remote }
func (c *UDPConn) SetDeadline(t time.Time) error {
	c.SetReadDeadline(t)  //nolint
	c.SetWriteDeadline(t) //nolint
	return nil
}

func (c *UDPConn) SetReadDeadline(t time.Time) error {
	c.s.mu.Lock()
	c.s.rdl = t
	c.s.mu.Unlock()
	var d int64 = -1
	if !t.IsZero() {
		d = int64(time.Until(t))
	}
	rec("net", c.s.name+" set-read-deadline", int64(c.s.id), d, 0, nodeFlag(c.s.node))
	poke(c.s.in.wake) // a read that is already blocked observes the new deadline
	return nil
}

func (c *UDPConn) SetWriteDeadline(t time.Time) error {
	c.s.mu.Lock()
	c.s.wdl = t
	c.s.mu.Unlock()
	var d int64 = -1
	if !t.IsZero() {
		d = int64(time.Until(t))
	}
	rec("net", c.s.name+" set-write-deadline", int64(c.s.id), d, 0, nodeFlag(c.s.node))
	return nil
}

// FailReadAt makes the k-th and every later Read fail.
func (c *UDPConn) FailReadAt(k int, e error) {
	c.s.mu.Lock()
	c.s.ReadErrAt, c.s.ReadErrV = k, e
	c.s.mu.Unlock()
}

// SetReadErr makes every later Read fail (an ICMP error, an interface going away).
func (c *UDPConn) SetReadErr(e error) {
	c.s.mu.Lock()
	c.s.ReadErr = e
	c.s.mu.Unlock()
}

// Closed tells whether the socket was closed.
func (c *UDPConn) Closed() bool { return c.s.isClosed() }

var _ net.Conn = (*UDPConn)(nil)

// ---------------------------------------------------------------------------
// stub of pion's udp.Listen: one accepted net.Conn per remote address

// ErrClosedListener mirrors pion's error.
var ErrClosedListener = errors.New("udp: listener closed")

type pionListener struct {
	w       *World
	s       *udpSock
	mu      sync.Mutex
	conns   map[int]*pionConn // by remote port
	acceptQ chan *pionConn
	done    chan struct{}
	closed  bool
}

type pionConn struct {
	l        *pionListener
	remote   Addr
	in       *inbox
	name     string
	id       int
	mu       sync.Mutex
	closed   bool
	closedCh chan struct{}
	rdl, wdl time.Time
}

// PionListen replaces github.com/pion/transport/v2/udp.Listen for package gomavlib.
func PionListen(network string, laddr *net.UDPAddr) (net.Listener, error) {
	w := Cur
	s, err := w.bindUDP(fmt.Sprintf("0.0.0.0:%d", laddr.Port), true)
	if err != nil {
		return nil, err
	}
	l := &pionListener{w: w, s: s, conns: map[int]*pionConn{}, acceptQ: make(chan *pionConn, 128), done: make(chan struct{})}
	s.mu.Lock()
	s.demux = l.dispatch
	s.mu.Unlock()
	return l, nil
}

func (l *pionListener) dispatch(d dgram) {
	l.mu.Lock()
	c := l.conns[d.from.Port]
	if c == nil {
		if l.closed {
			l.mu.Unlock()
			return
		}
		l.w.mu.Lock()
		l.w.nextConn++
		idn := l.w.nextConn
		l.w.mu.Unlock()
		c = &pionConn{l: l, remote: d.from, in: newInbox(), id: idn, closedCh: make(chan struct{})}
		c.name = fmt.Sprintf("pion#%d", idn)
		select {
		case l.acceptQ <- c:
			l.conns[d.from.Port] = c
		default:
			l.mu.Unlock()
			return
		}
	}
	l.mu.Unlock()
	c.in.push(d)
}

func (l *pionListener) Accept() (net.Conn, error) {
	dsim.Yield("pion.Accept")
	select {
	case c := <-l.acceptQ:
		rec("net", c.name+" accepted", int64(c.id), int64(c.remote.Port))
		return c, nil
	case <-l.done:
		return nil, ErrClosedListener
	}
}

func (l *pionListener) maybeRelease() {
	l.mu.Lock()
	release := l.closed && len(l.conns) == 0
	l.mu.Unlock()
	if release {
		l.s.close()
	}
}

func (l *pionListener) Close() error {
	dsim.Yield("pion.Listener.Close")
	l.mu.Lock()
	if l.closed {
		l.mu.Unlock()
		return nil
	}
	l.closed = true
	close(l.done)
	for {
		select {
		case c := <-l.acceptQ:
			delete(l.conns, c.remote.Port)
			continue
		default:
		}
		break
	}
	l.mu.Unlock()
	rec("net", "pion listener close", int64(l.s.port))
	l.maybeRelease()
	return nil
}

func (l *pionListener) Addr() net.Addr { return l.s.local() }

func (c *pionConn) Read(p []byte) (int, error) {
	dsim.Yield(c.name + ".Read")
	rec("net", c.name+" read-call", int64(c.id), 0, 0, 1)
	c.mu.Lock()
	dl := c.rdl
	c.mu.Unlock()
	if !dl.IsZero() && !time.Now().Before(dl) {
		rec("net", c.name+" read timeout", int64(c.id))
		return 0, timeoutError("read", "udp")
	}
	d, err := recvFrom(c.name, c.id, c.in, func() time.Time {
		c.mu.Lock()
		defer c.mu.Unlock()
		return c.rdl
	}, nil)
	if err != nil {
		return 0, err
	}
	n := copy(p, d.data)
	rec("net", c.name+" read", int64(c.id), int64(n))
	if n < len(d.data) {
		return n, io.ErrShortBuffer
	}
	return n, nil
}

func (c *pionConn) Write(p []byte) (int, error) {
	dsim.Yield(c.name + ".Write")
	c.mu.Lock()
	dl := c.wdl
	c.mu.Unlock()
	rec("net", c.name+" write-call", int64(c.id), int64(len(p)), 0, 1)
	if !dl.IsZero() && !time.Now().Before(dl) {
		return 0, timeoutError("write", "udp")
	}
	if c.l.s.isClosed() {
		return 0, &net.OpError{Op: "write", Net: "udp", Err: errClosed}
	}
	if err := c.l.s.trySend(c.remote, p); err != nil {
		return 0, err
	}
	return len(p), nil
}

func (c *pionConn) Close() error {
	dsim.Yield(c.name + ".Close")
	c.mu.Lock()
	if c.closed {
		c.mu.Unlock()
		return nil
	}
	c.closed = true
	close(c.closedCh)
	c.mu.Unlock()
	c.l.mu.Lock()
	delete(c.l.conns, c.remote.Port)
	c.l.mu.Unlock()
	c.in.close()
	rec("net", c.name+" close", int64(c.id))
	c.l.maybeRelease()
	return nil
}

func (c *pionConn) LocalAddr() net.Addr  { return c.l.s.local() }
func (c *pionConn) RemoteAddr() net.Addr { return c.remote }
func (c *pionConn) SetDeadline(t time.Time) error {
	c.SetReadDeadline(t)  //nolint
	c.SetWriteDeadline(t) //nolint
	return nil
}

func (c *pionConn) SetReadDeadline(t time.Time) error {
	c.mu.Lock()
	c.rdl = t
	c.mu.Unlock()
	var d int64 = -1
	if !t.IsZero() {
		d = int64(time.Until(t))
	}
	rec("net", c.name+" set-read-deadline", int64(c.id), d, 0, 1)
	return nil
}

func (c *pionConn) SetWriteDeadline(t time.Time) error {
	c.mu.Lock()
	c.wdl = t
	c.mu.Unlock()
	var d int64 = -1
	if !t.IsZero() {
		d = int64(time.Until(t))
	}
	rec("net", c.name+" set-write-deadline", int64(c.id), d, 0, 1)
	return nil
}

// ---------------------------------------------------------------------------
// packet connections (UDP broadcast endpoint; also peers that are not "connected")

// PacketConn is an unconnected datagram socket.
type PacketConn struct{ s *udpSock }

// ListenPacket replaces net.ListenPacket for package gomavlib.
func ListenPacket(network, address string) (net.PacketConn, error) {
	s, err := Cur.bindUDP(address, true)
	if err != nil {
		return nil, err
	}
	return &PacketConn{s}, nil
}

// ListenPacketPeer binds a peer socket; bcast != 0 subscribes it to a broadcast port.
func (w *World) ListenPacketPeer(address string, bcast int) (*PacketConn, error) {
	s, err := w.bindUDP(address, false)
	if err != nil {
		return nil, err
	}
	s.bcast = bcast
	return &PacketConn{s}, nil
}

func (c *PacketConn) Port() int    { return c.s.port }
func (c *PacketConn) Name() string { return c.s.name }

func (c *PacketConn) ReadFrom(p []byte) (int, net.Addr, error) {
	dsim.Yield(c.s.name + ".ReadFrom")
	if c.s.isClosed() {
		return 0, nil, &net.OpError{Op: "read", Net: "udp", Err: errClosed}
	}
	d, err := recvFrom(c.s.name, c.s.id, c.s.in, func() time.Time {
		c.s.mu.Lock()
		defer c.s.mu.Unlock()
		return c.s.rdl
	}, c.s.closedCh)
	if err != nil {
		if errors.Is(err, io.EOF) {
			return 0, nil, &net.OpError{Op: "read", Net: "udp", Err: errClosed}
		}
		return 0, nil, err
	}
	n := copy(p, d.data)
	rec("net", c.s.name+" readfrom", int64(c.s.id), int64(n), int64(d.from.Port))
	return n, &net.UDPAddr{IP: net.IPv4(127, 0, 0, 1), Port: d.from.Port}, nil
}

func (c *PacketConn) WriteTo(p []byte, addr net.Addr) (int, error) {
	dsim.Yield(c.s.name + ".WriteTo")
	if c.s.isClosed() {
		return 0, &net.OpError{Op: "write", Net: "udp", Err: errClosed}
	}
	ua, ok := addr.(*net.UDPAddr)
	if !ok {
		return 0, errors.New("unsupported address type")
	}
	rec("net", c.s.name+" write-call", int64(c.s.id), int64(len(p)))
	c.s.mu.Lock()
	wdl := c.s.wdl
	c.s.mu.Unlock()
	if !wdl.IsZero() && !time.Now().Before(wdl) {
		return 0, timeoutError("write", "udp")
	}
	if err := c.s.trySend(Addr{"udp", ua.IP.String(), ua.Port}, p); err != nil {
		return 0, err
	}
	return len(p), nil
}

func (c *PacketConn) Close() error {
	dsim.Yield(c.s.name + ".Close")
	if !c.s.close() {
		return &net.OpError{Op: "close", Net: "udp", Err: errClosed}
	}
	return nil
}

func (c *PacketConn) LocalAddr() net.Addr {
	return &net.UDPAddr{IP: net.IPv4(127, 0, 0, 1), Port: c.s.port}
}
func (c *PacketConn) SetDeadline(t time.Time) error {
	c.SetReadDeadline(t)  //nolint
	c.SetWriteDeadline(t) //nolint
	return nil
}

func (c *PacketConn) SetReadDeadline(t time.Time) error {
	c.s.mu.Lock()
	c.s.rdl = t
	c.s.mu.Unlock()
	poke(c.s.in.wake) // a read that is already blocked observes the new deadline
	return nil
}

func (c *PacketConn) SetWriteDeadline(t time.Time) error {
	c.s.mu.Lock()
	c.s.wdl = t
	c.s.mu.Unlock()
	var d int64 = -1
	if !t.IsZero() {
		d = int64(time.Until(t))
	}
	rec("net", c.s.name+" set-write-deadline", int64(c.s.id), d)
	return nil
}

var _ net.PacketConn = (*PacketConn)(nil)
