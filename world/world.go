// Package world is the simulated environment: an in-memory network (TCP-like streams,
// UDP datagrams, a stub of pion's UDP listener, packet connections), serial ports, custom
// pipes and a disk. Every blocking operation is a dsim scheduling point, blocks only on
// channels and timers of the synctest bubble, and is appended to the run history.
//
// The instrumenter redirects net.Listen, net.ListenPacket, net.Dialer, pion udp.Listen,
// serial.Open of package gomavlib to the functions of this package; they act on Cur.
package world

import (
	"context"
	"errors"
	"fmt"
	"io"
	"net"
	"os"
	"strconv"
	"sync"
	"time"

	"go.bug.st/serial"

	"verif/dsim"
)

// Cur is the world of the run in progress (one run at a time per process).
var Cur *World

// World is one simulated environment.
type World struct {
	mu       sync.Mutex
	tcpL     map[int]*TCPListener
	udpBound map[int]*udpSock
	nextPort int
	nextConn int
	conns    []*Conn    // every stream connection ever made
	socks    []*udpSock // every datagram socket ever made
	serials  map[string]*SerialLine

	// hooks, set by scenarios before the node starts (never changed concurrently)
	DialHook  func(network, addr string, attempt int) DialVerdict
	dialCount map[string]int
	ChunkMode int // default read segmentation for new connections: 0 whole, 1 bytewise, 2 random
	SendBuf   int // default capacity of a stream direction in bytes
	// UDPWriteHook, when set, sees every datagram a node-side socket is about to send (local port,
	// destination port, bytes); a non-nil result fails that write and nothing is sent
	UDPWriteHook func(local, remote int, p []byte) error
	// SerialOpenLatency is how long a successful serial open takes (0 = no time)
	SerialOpenLatency time.Duration
	UDP               UDPFaults
	OnNewConn         func(c *Conn)    // called (under no lock) for every new node-side stream connection
	OnNewUDP          func(c *UDPConn) // called for every UDP socket dialled by the node
	NodeConns         []NodeConn       // node-side connections in the order they were made (dials, serial opens)
}

// NodeConn describes one connection made by the node.
type NodeConn struct {
	Addr string // dialled address or serial device
	Kind string // tcp | udp | serial
	ID   int    // connection / socket id
	Port int    // local (source) port for tcp / udp
	T    time.Duration
}

func (w *World) noteNodeConn(nc NodeConn) {
	nc.T = dsim.Now()
	w.mu.Lock()
	w.NodeConns = append(w.NodeConns, nc)
	w.mu.Unlock()
}

// NodeConnsFor lists the node's connections to addr in order.
func (w *World) NodeConnsFor(addr string) []NodeConn {
	w.mu.Lock()
	defer w.mu.Unlock()
	var out []NodeConn
	for _, c := range w.NodeConns {
		if c.Addr == addr {
			out = append(out, c)
		}
	}
	return out
}

// DialVerdict is what the network does with a connection attempt.
type DialVerdict int

const (
	DialOK DialVerdict = iota
	DialRefuse
	DialHang // no answer: the dial blocks until its context ends
)

// UDPFaults configures the datagram network (per mille).
type UDPFaults struct {
	LossPm    int
	DupPm     int
	DelayPm   int // a delayed datagram is delivered up to MaxDelay later (reordering)
	MaxDelay  time.Duration
	CorruptPm int
}

// New makes a world and installs it as Cur.
func New() *World {
	w := &World{tcpL: map[int]*TCPListener{}, udpBound: map[int]*udpSock{}, nextPort: 40000,
		serials: map[string]*SerialLine{}, dialCount: map[string]int{}, SendBuf: 1 << 16}
	Cur = w
	return w
}

func portOf(addr string) (int, error) {
	_, p, err := net.SplitHostPort(addr)
	if err != nil {
		return 0, err
	}
	n, err := strconv.Atoi(p)
	if err != nil || n < 0 || n > 65535 {
		return 0, fmt.Errorf("invalid port %q", p)
	}
	return n, nil
}

// Addr is a simulated network address.
type Addr struct {
	Net  string
	IP   string
	Port int
}

func (a Addr) Network() string { return a.Net }
func (a Addr) String() string  { return a.IP + ":" + strconv.Itoa(a.Port) }

func rec(kind, s string, ints ...int64) { dsim.Record(kind, s, nil, ints...) }

func nodeFlag(node bool) int64 {
	if node {
		return 1
	}
	return 0
}

// timeoutError mimics the error of an expired socket deadline.
func timeoutError(op, network string) error {
	return &net.OpError{Op: op, Net: network, Err: os.ErrDeadlineExceeded}
}

// Errors of the simulated network.
var (
	ErrRefused    = errors.New("connection refused")
	ErrReset      = errors.New("connection reset by peer")
	ErrBrokenPipe = errors.New("broken pipe")
	ErrAddrInUse  = errors.New("bind: address already in use")
)

// ---------------------------------------------------------------------------
// stream connections (TCP, serial lines, custom pipes)

type half struct {
	mu      sync.Mutex
	buf     []byte
	cap     int
	wclosed bool // writer side closed: reader sees EOF after draining
	rclosed bool // reader side closed: writer gets an error
	reset   bool
	rwake   chan struct{}
	wwake   chan struct{}
	total   int // bytes ever written
}

func newHalf(capacity int) *half {
	return &half{cap: capacity, rwake: make(chan struct{}, 1), wwake: make(chan struct{}, 1)}
}

func poke(c chan struct{}) {
	select {
	case c <- struct{}{}:
	default:
	}
}

// Faults of one end of a stream connection (set by scenarios; ops are counted from 1).
type Faults struct {
	ReadErrAt    int  // the k-th Read returns ReadErr (and every later one, unless ReadErrOnce)
	ReadErrOnce  bool // only that one Read fails (a transient error)
	ReadErr      error
	WriteErrAt   int // the k-th Write returns WriteErr
	WriteErr     error
	WriteErrOnce bool // only that one Write fails
	WriteBlockAt int  // from the k-th Write on, writes block (until deadline / close / Unblock)
}

// Conn is one end of a simulated stream connection.
type Conn struct {
	W        *World
	ID       int
	Name     string // e.g. "tcp#3.node"
	Kind     string // tcp | serial | pipe
	NodeSide bool
	local    Addr
	remote   Addr
	r, w     *half
	Peer     *Conn

	mu        sync.Mutex
	closed    bool
	closedCh  chan struct{}
	rdl, wdl  time.Time
	unblock   chan struct{}
	Faults    Faults
	NReads    int
	NWrites   int
	NClose    int
	chunkMode int
	Written   []byte                // everything accepted by Write on this end
	OnWrite   func(p []byte, k int) // called at the start of every Write call (no lock held)
	BlockedAt time.Duration         // simulated time at which a WriteBlockAt fault first blocked (0 = never)
	FaultAt   time.Duration         // simulated time of the first injected / timed-out write failure (0 = never)
	PressedAt time.Duration         // simulated time at which a Write first waited for room in the peer's buffer (0 = never)
	injected  error                 // read side broken by InjectReadErr: every Read fails, a blocked one at once
}

func (w *World) newPair(kind string, capacity int) (a, b *Conn) {
	w.mu.Lock()
	w.nextConn++
	idn := w.nextConn
	w.mu.Unlock()
	ab, ba := newHalf(capacity), newHalf(capacity)
	a = &Conn{W: w, ID: idn, Kind: kind, r: ba, w: ab, closedCh: make(chan struct{}), unblock: make(chan struct{}), chunkMode: w.ChunkMode}
	b = &Conn{W: w, ID: idn, Kind: kind, r: ab, w: ba, closedCh: make(chan struct{}), unblock: make(chan struct{}), chunkMode: w.ChunkMode}
	a.Peer, b.Peer = b, a
	w.mu.Lock()
	w.conns = append(w.conns, a, b)
	w.mu.Unlock()
	return
}

// Pipe makes a custom-transport pair (no deadlines are ever set on it by the node).
func (w *World) Pipe(name string) (node, peer *Conn) {
	node, peer = w.newPair("pipe", w.SendBuf)
	node.Name, peer.Name = name+".node", name+".peer"
	node.NodeSide = true
	return
}

func (c *Conn) String() string { return c.Name }

// SetChunkMode sets the read segmentation of this end.
func (c *Conn) SetChunkMode(m int) { c.chunkMode = m }

func (c *Conn) deadline(read bool) time.Time {
	c.mu.Lock()
	defer c.mu.Unlock()
	if read {
		return c.rdl
	}
	return c.wdl
}

func (c *Conn) isClosed() bool {
	c.mu.Lock()
	defer c.mu.Unlock()
	return c.closed
}

var errClosed = net.ErrClosed

// wait blocks until wake, local close or the deadline; it reports why it returned.
func (c *Conn) wait(wake chan struct{}, dl time.Time, extra chan struct{}) (timeout, closed bool) {
	var tc <-chan time.Time
	if !dl.IsZero() {
		d := time.Until(dl)
		if d <= 0 {
			return true, false
		}
		t := time.NewTimer(d)
		defer t.Stop()
		tc = t.C
	}
	select {
	case <-wake:
		return false, false
	case <-extra:
		return false, false
	case <-c.closedCh:
		return false, true
	case <-tc:
		return true, false
	}
}

// Read implements io.Reader with arbitrary segmentation.
func (c *Conn) Read(p []byte) (int, error) {
	dsim.Yield(c.Name + ".Read")
	c.mu.Lock()
	c.NReads++
	k := c.NReads
	f := c.Faults
	c.mu.Unlock()
	rec("net", c.Name+" read-call", int64(c.ID), int64(k), 0, nodeFlag(c.NodeSide))
	if f.ReadErrAt > 0 && (k == f.ReadErrAt || (k > f.ReadErrAt && !f.ReadErrOnce)) {
		dsim.Probe("fault:read-error")
		rec("net", c.Name+" read-fault "+f.ReadErr.Error(), int64(c.ID))
		return 0, f.ReadErr
	}
	// the chunk size is drawn before blocking (a woken task must not draw)
	chunk := len(p)
	switch c.chunkMode {
	case 1:
		chunk = 1
	case 2:
		if dsim.Choose(2) == 0 {
			chunk = 1 + dsim.Choose(len(p))
		} else {
			chunk = 1 + dsim.Choose(16)
		}
	}
	if len(p) == 0 {
		return 0, nil
	}
	// an io.Reader may return the last bytes together with the error; drawn before blocking
	eofWithData := (c.Kind == "pipe" || c.Kind == "serial") && dsim.Choose(2) == 1
	for {
		if c.isClosed() {
			return 0, &net.OpError{Op: "read", Net: c.Kind, Err: errClosed}
		}
		c.mu.Lock()
		inj := c.injected
		c.mu.Unlock()
		if inj != nil {
			dsim.Probe("fault:read-error")
			rec("net", c.Name+" read-fault "+inj.Error(), int64(c.ID))
			return 0, inj
		}
		// a deadline that has passed fails the call even when data is buffered (as the runtime's poller does)
		if dl := c.deadline(true); !dl.IsZero() && !time.Now().Before(dl) {
			rec("net", c.Name+" read timeout", int64(c.ID))
			return 0, timeoutError("read", c.Kind)
		}
		h := c.r
		h.mu.Lock()
		if h.reset {
			h.mu.Unlock()
			rec("net", c.Name+" read reset", int64(c.ID))
			return 0, &net.OpError{Op: "read", Net: c.Kind, Err: ErrReset}
		}
		if len(h.buf) > 0 {
			n := chunk
			if n > len(h.buf) {
				n = len(h.buf)
			}
			if n > len(p) {
				n = len(p)
			}
			copy(p, h.buf[:n])
			h.buf = h.buf[n:]
			last := len(h.buf) == 0 && h.wclosed
			h.mu.Unlock()
			poke(h.wwake)
			rec("net", c.Name+" read", int64(c.ID), int64(n))
			if last && eofWithData {
				dsim.Probe("fault:data-with-eof")
				rec("net", c.Name+" read EOF (with data)", int64(c.ID))
				return n, io.EOF
			}
			return n, nil
		}
		if h.wclosed {
			h.mu.Unlock()
			rec("net", c.Name+" read EOF", int64(c.ID))
			return 0, io.EOF
		}
		h.mu.Unlock()
		timeout, closed := c.wait(h.rwake, c.deadline(true), nil)
		if closed {
			return 0, &net.OpError{Op: "read", Net: c.Kind, Err: errClosed}
		}
		if timeout {
			rec("net", c.Name+" read timeout", int64(c.ID))
			return 0, timeoutError("read", c.Kind)
		}
	}
}

// Write implements io.Writer; it blocks while the peer's receive buffer is full.
func (c *Conn) Write(p []byte) (int, error) {
	dsim.Yield(c.Name + ".Write")
	c.mu.Lock()
	c.NWrites++
	k := c.NWrites
	f := c.Faults
	c.mu.Unlock()
	rec("net", c.Name+" write-call", int64(c.ID), int64(len(p)), int64(k), nodeFlag(c.NodeSide))
	if cb := c.OnWrite; cb != nil {
		cb(p, k)
	}
	if f.WriteErrAt > 0 && (k == f.WriteErrAt || (k > f.WriteErrAt && !f.WriteErrOnce)) {
		dsim.Probe("fault:write-error")
		rec("net", c.Name+" write-fault", int64(c.ID), int64(k))
		c.mu.Lock()
		if c.FaultAt == 0 {
			c.FaultAt = dsim.Now() + 1
		}
		c.mu.Unlock()
		return 0, f.WriteErr
	}
	if dl := c.deadline(false); !dl.IsZero() && !time.Now().Before(dl) {
		// a deadline that has passed fails the call even when there is room
		rec("net", c.Name+" write timeout", int64(c.ID), 0)
		dsim.Probe("fault:write-timeout")
		c.mu.Lock()
		if c.FaultAt == 0 {
			c.FaultAt = dsim.Now() + 1
		}
		c.mu.Unlock()
		return 0, timeoutError("write", c.Kind)
	}
	blockFault := f.WriteBlockAt > 0 && k >= f.WriteBlockAt
	written := 0
	for {
		if c.isClosed() {
			return written, &net.OpError{Op: "write", Net: c.Kind, Err: errClosed}
		}
		h := c.w
		h.mu.Lock()
		if h.reset || h.rclosed {
			h.mu.Unlock()
			rec("net", c.Name+" write broken", int64(c.ID))
			return written, &net.OpError{Op: "write", Net: c.Kind, Err: ErrBrokenPipe}
		}
		if !blockFault {
			room := h.cap - len(h.buf)
			if room > 0 {
				n := len(p) - written
				if n > room {
					n = room
				}
				h.buf = append(h.buf, p[written:written+n]...)
				h.total += n
				written += n
			}
		}
		h.mu.Unlock()
		if written > 0 {
			poke(h.rwake)
		}
		if written == len(p) {
			c.mu.Lock()
			c.Written = append(c.Written, p...)
			c.mu.Unlock()
			rec("net", c.Name+" write", int64(c.ID), int64(len(p)))
			return written, nil
		}
		if blockFault {
			dsim.Probe("fault:write-block")
			c.mu.Lock()
			if c.BlockedAt == 0 {
				c.BlockedAt = dsim.Now() + 1
			}
			c.mu.Unlock()
		} else {
			dsim.Probe("cov:write-backpressure")
			c.mu.Lock()
			if c.PressedAt == 0 {
				c.PressedAt = dsim.Now() + 1
			}
			c.mu.Unlock()
		}
		timeout, closed := c.wait(h.wwake, c.deadline(false), c.unblockCh())
		if closed {
			return written, &net.OpError{Op: "write", Net: c.Kind, Err: errClosed}
		}
		if timeout {
			rec("net", c.Name+" write timeout", int64(c.ID), int64(written))
			dsim.Probe("fault:write-timeout")
			c.mu.Lock()
			c.Written = append(c.Written, p[:written]...)
			if c.FaultAt == 0 {
				c.FaultAt = dsim.Now() + 1
			}
			c.mu.Unlock()
			return written, timeoutError("write", c.Kind)
		}
		c.mu.Lock()
		blockFault = c.Faults.WriteBlockAt > 0 && k >= c.Faults.WriteBlockAt
		c.mu.Unlock()
	}
}

func (c *Conn) unblockCh() chan struct{} {
	c.mu.Lock()
	defer c.mu.Unlock()
	return c.unblock
}

// Unblock ends a WriteBlockAt fault (called by scenario tasks).
func (c *Conn) Unblock() {
	c.mu.Lock()
	c.Faults.WriteBlockAt = 0
	ch := c.unblock
	c.unblock = make(chan struct{})
	c.mu.Unlock()
	close(ch)
}

// Close closes this end: pending and later operations on it fail, the peer reads EOF after
// draining and its writes fail.
func (c *Conn) Close() error {
	dsim.Yield(c.Name + ".Close")
	c.mu.Lock()
	c.NClose++
	if c.closed {
		c.mu.Unlock()
		rec("net", c.Name+" close again", int64(c.ID))
		return &net.OpError{Op: "close", Net: c.Kind, Err: errClosed}
	}
	c.closed = true
	close(c.closedCh)
	c.mu.Unlock()
	c.w.mu.Lock()
	c.w.wclosed = true
	c.w.mu.Unlock()
	poke(c.w.rwake)
	c.r.mu.Lock()
	c.r.rclosed = true
	c.r.mu.Unlock()
	poke(c.r.wwake)
	rec("net", c.Name+" close", int64(c.ID))
	return nil
}

// Reset aborts the connection: the peer's pending and later reads and writes fail at once.
func (c *Conn) Reset() {
	dsim.Yield(c.Name + ".Reset")
	c.mu.Lock()
	if !c.closed {
		c.closed = true
		close(c.closedCh)
	}
	c.mu.Unlock()
	for _, h := range []*half{c.w, c.r} {
		h.mu.Lock()
		h.reset = true
		h.mu.Unlock()
		poke(h.rwake)
		poke(h.wwake)
	}
	rec("net", c.Name+" reset", int64(c.ID))
}

// ReadCount is the number of Read calls made on this end so far.
func (c *Conn) ReadCount() int {
	c.mu.Lock()
	defer c.mu.Unlock()
	return c.NReads
}

// WriteCount is the number of Write calls made on this end so far.
func (c *Conn) WriteCount() int {
	c.mu.Lock()
	defer c.mu.Unlock()
	return c.NWrites
}

// InjectReadErr breaks the read side of this end from now on (a device unplugged, a link gone
// bad): a Read that is blocked returns the error at once, every later Read returns it too.
func (c *Conn) InjectReadErr(err error) {
	c.mu.Lock()
	c.injected = err
	c.mu.Unlock()
	poke(c.r.rwake)
}

// Pressed reports whether (and since when) a Write on this end has had to wait for room.
func (c *Conn) Pressed() (bool, time.Duration) {
	c.mu.Lock()
	defer c.mu.Unlock()
	return c.PressedAt != 0, c.PressedAt
}

// Times returns when a block fault first blocked and when a write first failed.
func (c *Conn) Times() (blockedAt, faultAt time.Duration) {
	c.mu.Lock()
	defer c.mu.Unlock()
	return c.BlockedAt, c.FaultAt
}

// SetFaults installs faults on this end.
func (c *Conn) SetFaults(f Faults) {
	c.mu.Lock()
	c.Faults = f
	c.mu.Unlock()
}

// Closed reports whether Close was called on this end.
func (c *Conn) Closed() bool { return c.isClosed() }

// CloseCount is the number of Close calls seen by this end.
func (c *Conn) CloseCount() int {
	c.mu.Lock()
	defer c.mu.Unlock()
	return c.NClose
}

// Buffered is the number of bytes written by the peer and not yet read by this end.
func (c *Conn) Buffered() int {
	c.r.mu.Lock()
	defer c.r.mu.Unlock()
	return len(c.r.buf)
}

func (c *Conn) LocalAddr() net.Addr  { return c.local }
func (c *Conn) RemoteAddr() net.Addr { return c.remote }

func (c *Conn) SetDeadline(t time.Time) error {
	c.SetReadDeadline(t)  //nolint
	c.SetWriteDeadline(t) //nolint
	return nil
}

func (c *Conn) SetReadDeadline(t time.Time) error {
	if c.isClosed() {
		return &net.OpError{Op: "set", Net: c.Kind, Err: errClosed}
	}
	c.mu.Lock()
	c.rdl = t
	c.mu.Unlock()
	var d int64 = -1
	if !t.IsZero() {
		d = int64(time.Until(t))
	}
	rec("net", c.Name+" set-read-deadline", int64(c.ID), d, 0, nodeFlag(c.NodeSide))
	poke(c.r.rwake) // a read that is already blocked observes the new deadline
	return nil
}

func (c *Conn) SetWriteDeadline(t time.Time) error {
	if c.isClosed() {
		return &net.OpError{Op: "set", Net: c.Kind, Err: errClosed}
	}
	c.mu.Lock()
	c.wdl = t
	c.mu.Unlock()
	var d int64 = -1
	if !t.IsZero() {
		d = int64(time.Until(t))
	}
	rec("net", c.Name+" set-write-deadline", int64(c.ID), d, 0, nodeFlag(c.NodeSide))
	poke(c.w.wwake) // a write that is already blocked observes the new deadline
	return nil
}

var _ net.Conn = (*Conn)(nil)

// ---------------------------------------------------------------------------
// TCP

// TCPListener is a simulated listening socket.
type TCPListener struct {
	W        *World
	addr     Addr
	q        chan *Conn
	done     chan struct{}
	mu       sync.Mutex
	closed   bool
	Node     bool
	Accepted []*Conn
}

// Listen replaces net.Listen for package gomavlib.
func Listen(network, address string) (net.Listener, error) {
	l, err := Cur.ListenTCP(address, true)
	if err != nil {
		return nil, err
	}
	return l, nil
}

// ListenTCP binds a simulated TCP port.
func (w *World) ListenTCP(address string, node bool) (*TCPListener, error) {
	port, err := portOf(address)
	if err != nil {
		return nil, &net.OpError{Op: "listen", Net: "tcp", Err: err}
	}
	w.mu.Lock()
	defer w.mu.Unlock()
	if port == 0 {
		w.nextPort++
		port = w.nextPort
	}
	if _, used := w.tcpL[port]; used {
		return nil, &net.OpError{Op: "listen", Net: "tcp", Err: ErrAddrInUse}
	}
	l := &TCPListener{W: w, addr: Addr{"tcp", "127.0.0.1", port}, q: make(chan *Conn, 128), done: make(chan struct{}), Node: node}
	w.tcpL[port] = l
	rec("net", "tcp listen", int64(port))
	return l, nil
}

func (l *TCPListener) Accept() (net.Conn, error) {
	dsim.Yield("tcp.Accept")
	select {
	case c := <-l.q:
		l.mu.Lock()
		l.Accepted = append(l.Accepted, c)
		l.mu.Unlock()
		rec("net", c.Name+" accepted", int64(c.ID))
		if l.Node && l.W.OnNewConn != nil {
			l.W.OnNewConn(c)
		}
		return c, nil
	case <-l.done:
		return nil, &net.OpError{Op: "accept", Net: "tcp", Err: errClosed}
	}
}

func (l *TCPListener) Close() error {
	dsim.Yield("tcp.Listener.Close")
	l.mu.Lock()
	if l.closed {
		l.mu.Unlock()
		return &net.OpError{Op: "close", Net: "tcp", Err: errClosed}
	}
	l.closed = true
	close(l.done)
	l.mu.Unlock()
	l.W.mu.Lock()
	delete(l.W.tcpL, l.addr.Port)
	l.W.mu.Unlock()
	rec("net", "tcp listener close", int64(l.addr.Port))
	// connections still in the backlog are reset, as a kernel does
	for {
		select {
		case c := <-l.q:
			for _, h := range []*half{c.w, c.r} {
				h.mu.Lock()
				h.reset = true
				h.mu.Unlock()
				poke(h.rwake)
				poke(h.wwake)
			}
			// never accepted: the kernel drops it, the listening process never held it
			c.mu.Lock()
			if !c.closed {
				c.closed = true
				close(c.closedCh)
			}
			c.mu.Unlock()
			continue
		default:
		}
		break
	}
	return nil
}

func (l *TCPListener) Addr() net.Addr { return l.addr }

// Dialer replaces net.Dialer for package gomavlib.
type Dialer struct {
	Timeout time.Duration
}

// Dial replaces net.Dial.
func Dial(network, address string) (net.Conn, error) {
	return (&Dialer{}).DialContext(context.Background(), network, address)
}

// DialTimeout replaces net.DialTimeout.
func DialTimeout(network, address string, d time.Duration) (net.Conn, error) {
	ctx, cancel := context.WithTimeout(context.Background(), d)
	defer cancel()
	return (&Dialer{}).DialContext(ctx, network, address)
}

// Dial is DialContext without a context.
func (d *Dialer) Dial(network, address string) (net.Conn, error) {
	return d.DialContext(context.Background(), network, address)
}

// DialContext connects from the node to a simulated peer.
func (d *Dialer) DialContext(ctx context.Context, network, address string) (net.Conn, error) {
	c, err := Cur.dial(ctx, network, address, true)
	if err != nil {
		return nil, err
	}
	return c, nil
}

// DialTCP is used by harness peers.
func (w *World) DialTCP(address string) (*Conn, error) {
	c, err := w.dial(context.Background(), "tcp4", address, false)
	if err != nil {
		return nil, err
	}
	return c.(*Conn), nil
}

func (w *World) dial(ctx context.Context, network, address string, node bool) (net.Conn, error) {
	dsim.Yield("dial")
	port, err := portOf(address)
	if err != nil {
		return nil, &net.OpError{Op: "dial", Net: network, Err: err}
	}
	udp := len(network) >= 3 && network[:3] == "udp"
	verdict := DialOK
	if node {
		rec("attempt", address, 0)
		defer func() { rec("attempt-end", address, 0) }()
	}
	if node && w.DialHook != nil {
		w.mu.Lock()
		w.dialCount[address]++
		n := w.dialCount[address]
		w.mu.Unlock()
		verdict = w.DialHook(network, address, n)
	}
	if ctx.Err() != nil {
		return nil, &net.OpError{Op: "dial", Net: network, Err: ctx.Err()}
	}
	if udp {
		if verdict != DialOK {
			dsim.Probe("fault:dial-fail")
			rec("net", "udp dial fail "+address, int64(port))
			return nil, &net.OpError{Op: "dial", Net: network, Err: &net.DNSError{Err: "no such host", Name: address, IsNotFound: true}}
		}
		s := w.newSock(0, node)
		s.connected = true
		s.remote = Addr{"udp", "127.0.0.1", port}
		rec("net", s.name+" udp dial "+address, int64(s.id), int64(port))
		uc := &UDPConn{s: s}
		if node {
			w.noteNodeConn(NodeConn{Addr: address, Kind: "udp", ID: s.id, Port: s.port})
			if w.OnNewUDP != nil {
				w.OnNewUDP(uc)
			}
		}
		return uc, nil
	}
	switch verdict {
	case DialRefuse:
		dsim.Probe("fault:dial-refused")
		rec("net", "tcp dial refused "+address, int64(port))
		return nil, &net.OpError{Op: "dial", Net: network, Err: ErrRefused}
	case DialHang:
		dsim.Probe("fault:dial-hang")
		rec("net", "tcp dial hangs "+address, int64(port))
		<-ctx.Done()
		rec("net", "tcp dial gave up "+address, int64(port))
		err := ctx.Err()
		if errors.Is(err, context.DeadlineExceeded) {
			return nil, &net.OpError{Op: "dial", Net: network, Err: timeoutErr{}}
		}
		return nil, &net.OpError{Op: "dial", Net: network, Err: err}
	}
	w.mu.Lock()
	l := w.tcpL[port]
	w.mu.Unlock()
	if l == nil {
		rec("net", "tcp dial refused (no listener) "+address, int64(port))
		return nil, &net.OpError{Op: "dial", Net: network, Err: ErrRefused}
	}
	a, b := w.newPair("tcp", w.SendBuf)
	w.mu.Lock()
	w.nextPort++
	eph := w.nextPort
	w.mu.Unlock()
	a.local, a.remote = Addr{"tcp", "127.0.0.1", eph}, l.addr
	b.local, b.remote = l.addr, a.local
	a.Name = fmt.Sprintf("tcp#%d.dial", a.ID)
	b.Name = fmt.Sprintf("tcp#%d.acc", a.ID)
	a.NodeSide = node
	b.NodeSide = l.Node
	select {
	case l.q <- b:
	default:
		rec("net", "tcp dial refused (backlog full) "+address, int64(port))
		return nil, &net.OpError{Op: "dial", Net: network, Err: ErrRefused}
	}
	rec("net", a.Name+" connected "+address, int64(a.ID), int64(port), int64(eph))
	if node {
		w.noteNodeConn(NodeConn{Addr: address, Kind: "tcp", ID: a.ID, Port: eph})
		if w.OnNewConn != nil {
			w.OnNewConn(a)
		}
	}
	return a, nil
}

type timeoutErr struct{}

func (timeoutErr) Error() string   { return "i/o timeout" }
func (timeoutErr) Timeout() bool   { return true }
func (timeoutErr) Temporary() bool { return true }

// ---------------------------------------------------------------------------
// leak inspection (for the Close oracles)

// OpenNodeResources lists what the node still holds: bound ports, open node-side connections.
func (w *World) OpenNodeResources() []string {
	w.mu.Lock()
	defer w.mu.Unlock()
	var out []string
	for p, l := range w.tcpL {
		if l.Node {
			out = append(out, fmt.Sprintf("tcp port %d bound", p))
		}
	}
	for p, s := range w.udpBound {
		if s.node {
			out = append(out, fmt.Sprintf("udp port %d bound", p))
		}
	}
	for _, c := range w.conns {
		if c.NodeSide && c.Kind == "tcp" && !c.Closed() {
			out = append(out, c.Name+" open")
		}
	}
	for _, s := range w.socks {
		if s.node && !s.isClosed() && s.port != 0 && w.udpBound[s.port] != s {
			out = append(out, s.name+" open")
		}
	}
	sortStrings(out)
	return out
}

func sortStrings(s []string) {
	for i := 1; i < len(s); i++ {
		for j := i; j > 0 && s[j] < s[j-1]; j-- {
			s[j], s[j-1] = s[j-1], s[j]
		}
	}
}

// Conns returns every stream connection end created so far.
func (w *World) Conns() []*Conn {
	w.mu.Lock()
	defer w.mu.Unlock()
	return append([]*Conn(nil), w.conns...)
}

// ---------------------------------------------------------------------------
// serial

// SerialLine is a simulated serial device.
type SerialLine struct {
	Device     string
	OpenErr    error // returned by Open while set
	mu         sync.Mutex
	Opens      int
	Cur        *Conn // node side of the currently open port
	PeerEnd    *Conn
	OnOpen     func(node, peer *Conn)
	FailOpenAt map[int]bool
}

// AddSerial registers a device.
func (w *World) AddSerial(device string) *SerialLine {
	s := &SerialLine{Device: device, FailOpenAt: map[int]bool{}}
	w.mu.Lock()
	w.serials[device] = s
	w.mu.Unlock()
	return s
}

// SerialPort is what serial.Open returns in simulation.
type SerialPort struct{ *Conn }

func (SerialPort) SetMode(*serial.Mode) error { return nil }
func (SerialPort) Drain() error               { return nil }
func (SerialPort) ResetInputBuffer() error    { return nil }
func (SerialPort) ResetOutputBuffer() error   { return nil }
func (SerialPort) SetDTR(bool) error          { return nil }
func (SerialPort) SetRTS(bool) error          { return nil }
func (SerialPort) GetModemStatusBits() (*serial.ModemStatusBits, error) {
	return &serial.ModemStatusBits{}, nil
}
func (SerialPort) SetReadTimeout(time.Duration) error { return nil }
func (SerialPort) Break(time.Duration) error          { return nil }

// SerialOpen replaces serial.Open for package gomavlib.
func SerialOpen(device string, mode *serial.Mode) (serial.Port, error) {
	dsim.Yield("serial.Open")
	w := Cur
	w.mu.Lock()
	s := w.serials[device]
	w.mu.Unlock()
	if s == nil {
		rec("net", "serial open "+device+": no such device")
		return nil, &serial.PortError{}
	}
	rec("attempt", device, 0)
	defer func() { rec("attempt-end", device, 0) }()
	s.mu.Lock()
	s.Opens++
	n := s.Opens
	fail := s.OpenErr
	if fail == nil && s.FailOpenAt[n] {
		fail = errors.New("serial: device busy")
	}
	s.mu.Unlock()
	if fail != nil {
		dsim.Probe("fault:serial-open-fail")
		rec("net", "serial open fail "+device, int64(n))
		return nil, fail
	}
	if lat := w.SerialOpenLatency; lat > 0 {
		dsim.Sleep(lat) // opening a device takes a while: things happen meanwhile
	}
	node, peer := w.newPair("serial", w.SendBuf)
	node.Name = fmt.Sprintf("serial#%d.node", node.ID)
	peer.Name = fmt.Sprintf("serial#%d.peer", node.ID)
	node.NodeSide = true
	s.mu.Lock()
	s.Cur, s.PeerEnd = node, peer
	cb := s.OnOpen
	s.mu.Unlock()
	rec("net", node.Name+" serial open "+device, int64(node.ID), int64(n))
	w.noteNodeConn(NodeConn{Addr: device, Kind: "serial", ID: node.ID})
	if cb != nil {
		cb(node, peer)
	}
	if w.OnNewConn != nil {
		w.OnNewConn(node)
	}
	return SerialPort{node}, nil
}

// Interfaces replaces net.Interfaces (used only when a broadcast endpoint has no local address).
func Interfaces() ([]net.Interface, error) { return nil, errors.New("no interfaces in simulation") }
