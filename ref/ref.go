// Package ref is an independent reference model of the MAVLink v1/v2 wire format,
// written from the MAVLink serialization and message-signing specification.
// It imports nothing from the repository under test.
package ref

import (
	"crypto/sha256"
	"errors"
	"fmt"
)

// ---------------------------------------------------------------------------
// CRC-16/MCRF4XX (X.25 without the final xor): reflected 0x1021 = 0x8408,
// init 0xFFFF, no xorout. Bit by bit on purpose.

// CRCInit is the initial CRC state.
const CRCInit uint16 = 0xFFFF

// CRCStep folds one byte into the state.
func CRCStep(crc uint16, b byte) uint16 {
	crc ^= uint16(b)
	for i := 0; i < 8; i++ {
		if crc&1 != 0 {
			crc = (crc >> 1) ^ 0x8408
		} else {
			crc >>= 1
		}
	}
	return crc
}

// CRC computes the checksum of data.
func CRC(data ...[]byte) uint16 {
	crc := CRCInit
	for _, d := range data {
		for _, b := range d {
			crc = CRCStep(crc, b)
		}
	}
	return crc
}

// ---------------------------------------------------------------------------
// Frames

const (
	MarkerV1 = 0xFE
	MarkerV2 = 0xFD
	// IncompatSigned is the only incompatibility flag defined by the spec.
	IncompatSigned = 0x01
)

// Frame is a MAVLink frame in wire terms.
type Frame struct {
	V2        bool
	Incompat  byte // v2 only
	Compat    byte // v2 only
	Seq       byte
	Sys       byte
	Comp      byte
	MsgID     uint32 // 8 bit in v1, 24 bit in v2
	Payload   []byte // 0..255 bytes
	Checksum  uint16
	LinkID    byte    // when signed
	Timestamp uint64  // 48 bit, when signed
	Signature [6]byte // when signed
}

// Signed tells whether the frame carries a signature block.
func (f *Frame) Signed() bool { return f.V2 && f.Incompat&IncompatSigned != 0 }

// Len is the encoded length.
func (f *Frame) Len() int {
	if !f.V2 {
		return 6 + len(f.Payload) + 2
	}
	n := 10 + len(f.Payload) + 2
	if f.Signed() {
		n += 13
	}
	return n
}

// header returns the bytes from the length byte to the message id (what the CRC covers
// before the payload).
func (f *Frame) header() []byte {
	if !f.V2 {
		return []byte{byte(len(f.Payload)), f.Seq, f.Sys, f.Comp, byte(f.MsgID)}
	}
	return []byte{byte(len(f.Payload)), f.Incompat, f.Compat, f.Seq, f.Sys, f.Comp,
		byte(f.MsgID), byte(f.MsgID >> 8), byte(f.MsgID >> 16)}
}

// Encode is the spec layout.
func (f *Frame) Encode() []byte {
	var out []byte
	if f.V2 {
		out = append(out, MarkerV2)
	} else {
		out = append(out, MarkerV1)
	}
	out = append(out, f.header()...)
	out = append(out, f.Payload...)
	out = append(out, byte(f.Checksum), byte(f.Checksum>>8))
	if f.Signed() {
		out = append(out, f.LinkID)
		for i := 0; i < 6; i++ {
			out = append(out, byte(f.Timestamp>>(8*uint(i))))
		}
		out = append(out, f.Signature[:]...)
	}
	return out
}

// ComputeChecksum is the CRC over length..payload followed by CRC_EXTRA.
func (f *Frame) ComputeChecksum(crcExtra byte) uint16 {
	return CRC(f.header(), f.Payload, []byte{crcExtra})
}

// ComputeSignature is the first 48 bits of
// SHA-256(key | header incl. marker | payload | crc | link id | timestamp).
func (f *Frame) ComputeSignature(key [32]byte) [6]byte {
	h := sha256.New()
	h.Write(key[:])
	h.Write([]byte{MarkerV2})
	h.Write(f.header())
	h.Write(f.Payload)
	h.Write([]byte{byte(f.Checksum), byte(f.Checksum >> 8)})
	h.Write([]byte{f.LinkID})
	var ts [6]byte
	for i := 0; i < 6; i++ {
		ts[i] = byte(f.Timestamp >> (8 * uint(i)))
	}
	h.Write(ts[:])
	var sig [6]byte
	copy(sig[:], h.Sum(nil)[:6])
	return sig
}

// Clone deep-copies a frame.
func (f *Frame) Clone() *Frame {
	g := *f
	g.Payload = append([]byte(nil), f.Payload...)
	return &g
}

// Equal compares field for field (a nil and an empty payload are equal).
func (f *Frame) Equal(g *Frame) bool {
	if f.V2 != g.V2 || f.Seq != g.Seq || f.Sys != g.Sys || f.Comp != g.Comp || f.MsgID != g.MsgID ||
		f.Checksum != g.Checksum || string(f.Payload) != string(g.Payload) {
		return false
	}
	if f.V2 {
		if f.Incompat != g.Incompat || f.Compat != g.Compat {
			return false
		}
		if f.Signed() && (f.LinkID != g.LinkID || f.Timestamp != g.Timestamp || f.Signature != g.Signature) {
			return false
		}
	}
	return true
}

func (f *Frame) String() string {
	if !f.V2 {
		return fmt.Sprintf("v1{seq=%d sys=%d comp=%d id=%d len=%d crc=%04x}", f.Seq, f.Sys, f.Comp, f.MsgID, len(f.Payload), f.Checksum)
	}
	s := fmt.Sprintf("v2{inc=%02x cmp=%02x seq=%d sys=%d comp=%d id=%d len=%d crc=%04x", f.Incompat, f.Compat, f.Seq, f.Sys, f.Comp, f.MsgID, len(f.Payload), f.Checksum)
	if f.Signed() {
		s += fmt.Sprintf(" link=%d ts=%d sig=%x", f.LinkID, f.Timestamp, f.Signature)
	}
	return s + "}"
}

// Decode errors.
var (
	ErrShort  = errors.New("ref: incomplete frame")
	ErrMarker = errors.New("ref: not a frame marker")
)

// Decode parses one frame at the start of b. It returns the frame and the number of bytes it
// occupies. Unknown incompatibility flags are returned as they are (the caller decides);
// only bit 0 decides whether a signature block follows, as the spec says.
func Decode(b []byte) (*Frame, int, error) {
	if len(b) == 0 {
		return nil, 0, ErrShort
	}
	switch b[0] {
	case MarkerV1:
		if len(b) < 6 {
			return nil, 0, ErrShort
		}
		l := int(b[1])
		if len(b) < 6+l+2 {
			return nil, 0, ErrShort
		}
		f := &Frame{Seq: b[2], Sys: b[3], Comp: b[4], MsgID: uint32(b[5])}
		f.Payload = append([]byte(nil), b[6:6+l]...)
		f.Checksum = uint16(b[6+l]) | uint16(b[7+l])<<8
		return f, 8 + l, nil
	case MarkerV2:
		if len(b) < 10 {
			return nil, 0, ErrShort
		}
		l := int(b[1])
		n := 10 + l + 2
		if b[2]&IncompatSigned != 0 {
			n += 13
		}
		if len(b) < n {
			return nil, 0, ErrShort
		}
		f := &Frame{V2: true, Incompat: b[2], Compat: b[3], Seq: b[4], Sys: b[5], Comp: b[6],
			MsgID: uint32(b[7]) | uint32(b[8])<<8 | uint32(b[9])<<16}
		f.Payload = append([]byte(nil), b[10:10+l]...)
		f.Checksum = uint16(b[10+l]) | uint16(b[11+l])<<8
		if f.Signed() {
			p := b[12+l:]
			f.LinkID = p[0]
			for i := 0; i < 6; i++ {
				f.Timestamp |= uint64(p[1+i]) << (8 * uint(i))
			}
			copy(f.Signature[:], p[7:13])
		}
		return f, n, nil
	}
	return nil, 0, ErrMarker
}

// ParseStream splits b into consecutive frames. It fails when a byte that is not a marker is
// found at a frame boundary; rest holds the bytes of a trailing incomplete frame.
func ParseStream(b []byte) (frames []*Frame, offsets []int, rest []byte, err error) {
	off := 0
	for off < len(b) {
		f, n, e := Decode(b[off:])
		if e == ErrShort {
			return frames, offsets, b[off:], nil
		}
		if e != nil {
			return frames, offsets, b[off:], fmt.Errorf("offset %d: byte %02x is not a frame marker", off, b[off])
		}
		frames = append(frames, f)
		offsets = append(offsets, off)
		off += n
	}
	return frames, offsets, nil, nil
}

// ---------------------------------------------------------------------------
// Signature timestamps

// TicksPerSecond: signature timestamps count units of 10 microseconds.
const TicksPerSecond = 100000

// ReplayWindowTicks is 10 seconds.
const ReplayWindowTicks = 10 * TicksPerSecond

// ReplayWindow is the model of the receiving side of a signed link.
type ReplayWindow struct {
	Has    bool
	Newest uint64
}

// Accept tells whether a correctly signed frame with timestamp ts is accepted, and updates
// the window. A frame is refused exactly when it is more than 10 s older than the newest
// accepted one (no wrap-around: plain integers).
func (w *ReplayWindow) Accept(ts uint64) bool {
	if w.Has && ts+ReplayWindowTicks < w.Newest {
		return false
	}
	if !w.Has || ts > w.Newest {
		w.Newest = ts
		w.Has = true
	}
	return true
}
