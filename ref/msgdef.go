package ref

import (
	"fmt"
	"math"
	"sort"
)

// FieldDef is one field of a message definition, in XML (declaration) order.
type FieldDef struct {
	Type   string // uint8_t int8_t uint16_t int16_t uint32_t int32_t uint64_t int64_t float double char
	Name   string // snake_case wire name
	ArrLen int    // 0 = scalar
	Ext    bool   // declared after <extensions/>
}

// MsgDef is a textual message definition.
type MsgDef struct {
	Name   string // e.g. HEARTBEAT
	ID     uint32
	Fields []FieldDef
}

// TypeSize is the wire size of a primitive type.
func TypeSize(t string) int {
	switch t {
	case "uint64_t", "int64_t", "double":
		return 8
	case "uint32_t", "int32_t", "float":
		return 4
	case "uint16_t", "int16_t":
		return 2
	case "uint8_t", "int8_t", "char":
		return 1
	}
	panic("ref: unknown type " + t)
}

// WireOrder returns indexes into Fields: base fields by descending primitive size, declaration
// order among equals, then extension fields in declaration order.
func (d *MsgDef) WireOrder() []int {
	var base, ext []int
	for i, f := range d.Fields {
		if f.Ext {
			ext = append(ext, i)
		} else {
			base = append(base, i)
		}
	}
	sort.SliceStable(base, func(a, b int) bool {
		return TypeSize(d.Fields[base[a]].Type) > TypeSize(d.Fields[base[b]].Type)
	})
	return append(base, ext...)
}

func (f FieldDef) size() int {
	if f.ArrLen > 0 {
		return TypeSize(f.Type) * f.ArrLen
	}
	return TypeSize(f.Type)
}

// Sizes returns the base payload size and the size including extensions.
func (d *MsgDef) Sizes() (base, extended int) {
	for _, f := range d.Fields {
		extended += f.size()
		if !f.Ext {
			base += f.size()
		}
	}
	return
}

// CRCExtra follows https://mavlink.io/en/guide/serialization.html#crc_extra.
func (d *MsgDef) CRCExtra() byte {
	crc := CRCInit
	add := func(s string) {
		for i := 0; i < len(s); i++ {
			crc = CRCStep(crc, s[i])
		}
	}
	add(d.Name + " ")
	for _, i := range d.WireOrder() {
		f := d.Fields[i]
		if f.Ext {
			continue
		}
		add(f.Type + " ")
		add(f.Name + " ")
		if f.ArrLen > 0 {
			crc = CRCStep(crc, byte(f.ArrLen))
		}
	}
	return byte(crc&0xFF) ^ byte(crc>>8)
}

// Value is the value of one field: Elems holds the raw bits of each element (one for a
// scalar), Str the text of a char array.
type Value struct {
	Elems []uint64
	Str   string
}

// Values holds one Value per field, in declaration order.
type Values []Value

func putLE(out []byte, v uint64, n int) {
	for i := 0; i < n; i++ {
		out[i] = byte(v >> (8 * uint(i)))
	}
}

func getLE(in []byte, n int) uint64 {
	var v uint64
	for i := 0; i < n; i++ {
		v |= uint64(in[i]) << (8 * uint(i))
	}
	return v
}

// EncodeFull lays the fields out without truncation: base fields only for v1, all for v2.
func (d *MsgDef) EncodeFull(vals Values, v2 bool) []byte {
	var out []byte
	for _, i := range d.WireOrder() {
		f := d.Fields[i]
		if f.Ext && !v2 {
			continue
		}
		buf := make([]byte, f.size())
		if f.Type == "char" {
			copy(buf, vals[i].Str) // NUL padded, cut at the declared length
		} else {
			sz := TypeSize(f.Type)
			n := 1
			if f.ArrLen > 0 {
				n = f.ArrLen
			}
			for k := 0; k < n; k++ {
				var e uint64
				if k < len(vals[i].Elems) {
					e = vals[i].Elems[k]
				}
				putLE(buf[k*sz:], e, sz)
			}
		}
		out = append(out, buf...)
	}
	return out
}

// Truncate applies MAVLink 2 payload truncation: trailing zero bytes removed, but never below
// one byte.
func Truncate(p []byte) []byte {
	n := len(p)
	for n > 1 && p[n-1] == 0 {
		n--
	}
	return p[:n]
}

// Encode is the canonical payload: full layout, zero-truncated in v2.
func (d *MsgDef) Encode(vals Values, v2 bool) []byte {
	p := d.EncodeFull(vals, v2)
	if v2 {
		return Truncate(p)
	}
	return p
}

// Decode reads a payload. v1 demands the exact base size; v2 zero-extends short payloads and
// ignores bytes beyond the extended size. Values come back in canonical form (strings cut at
// the first NUL, extensions zero in v1).
func (d *MsgDef) Decode(p []byte, v2 bool) (Values, error) {
	base, ext := d.Sizes()
	if !v2 {
		if len(p) != base {
			return nil, fmt.Errorf("ref: v1 payload of %d bytes, expected %d", len(p), base)
		}
	} else if len(p) < ext {
		p = append(append([]byte(nil), p...), make([]byte, ext-len(p))...)
	}
	vals := make(Values, len(d.Fields))
	off := 0
	for _, i := range d.WireOrder() {
		f := d.Fields[i]
		if f.Ext && !v2 {
			if f.Type == "char" {
				vals[i] = Value{}
			} else {
				n := 1
				if f.ArrLen > 0 {
					n = f.ArrLen
				}
				vals[i] = Value{Elems: make([]uint64, n)}
			}
			continue
		}
		if f.Type == "char" {
			raw := p[off : off+f.size()]
			end := 0
			for end < len(raw) && raw[end] != 0 {
				end++
			}
			vals[i] = Value{Str: string(raw[:end])}
		} else {
			sz := TypeSize(f.Type)
			n := 1
			if f.ArrLen > 0 {
				n = f.ArrLen
			}
			el := make([]uint64, n)
			for k := 0; k < n; k++ {
				el[k] = getLE(p[off+k*sz:], sz)
			}
			vals[i] = Value{Elems: el}
		}
		off += f.size()
	}
	return vals, nil
}

// Canon puts values into the form the wire imposes (strings cut at declared length / first NUL,
// elements reduced to their width, extensions dropped in v1).
func (d *MsgDef) Canon(vals Values, v2 bool) Values {
	out, err := d.Decode(d.EncodeFull(vals, v2), v2)
	if err != nil {
		panic(err)
	}
	return out
}

// EqualValues compares two decoded value lists.
func EqualValues(a, b Values) bool {
	if len(a) != len(b) {
		return false
	}
	for i := range a {
		if a[i].Str != b[i].Str || len(a[i].Elems) != len(b[i].Elems) {
			return false
		}
		for k := range a[i].Elems {
			if a[i].Elems[k] != b[i].Elems[k] {
				return false
			}
		}
	}
	return true
}

// F32 and F64 give the raw bits of floats.
func F32(f float32) uint64 { return uint64(math.Float32bits(f)) }
func F64(f float64) uint64 { return math.Float64bits(f) }

// ---------------------------------------------------------------------------
// Definitions. HEARTBEAT, SYS_STATUS and REQUEST_DATA_STREAM are copied from the public
// common.xml; their published CRC_EXTRA values (50, 124, 148) self-check CRCExtra. The
// VERIF_* messages belong to the harness dialect.

var (
	DefHeartbeat = &MsgDef{Name: "HEARTBEAT", ID: 0, Fields: []FieldDef{
		{Type: "uint8_t", Name: "type"},
		{Type: "uint8_t", Name: "autopilot"},
		{Type: "uint8_t", Name: "base_mode"},
		{Type: "uint32_t", Name: "custom_mode"},
		{Type: "uint8_t", Name: "system_status"},
		{Type: "uint8_t", Name: "mavlink_version"},
	}}
	DefSysStatus = &MsgDef{Name: "SYS_STATUS", ID: 1, Fields: []FieldDef{
		{Type: "uint32_t", Name: "onboard_control_sensors_present"},
		{Type: "uint32_t", Name: "onboard_control_sensors_enabled"},
		{Type: "uint32_t", Name: "onboard_control_sensors_health"},
		{Type: "uint16_t", Name: "load"},
		{Type: "uint16_t", Name: "voltage_battery"},
		{Type: "int16_t", Name: "current_battery"},
		{Type: "int8_t", Name: "battery_remaining"},
		{Type: "uint16_t", Name: "drop_rate_comm"},
		{Type: "uint16_t", Name: "errors_comm"},
		{Type: "uint16_t", Name: "errors_count1"},
		{Type: "uint16_t", Name: "errors_count2"},
		{Type: "uint16_t", Name: "errors_count3"},
		{Type: "uint16_t", Name: "errors_count4"},
		{Type: "uint32_t", Name: "onboard_control_sensors_present_extended", Ext: true},
		{Type: "uint32_t", Name: "onboard_control_sensors_enabled_extended", Ext: true},
		{Type: "uint32_t", Name: "onboard_control_sensors_health_extended", Ext: true},
	}}
	DefRequestDataStream = &MsgDef{Name: "REQUEST_DATA_STREAM", ID: 66, Fields: []FieldDef{
		{Type: "uint8_t", Name: "target_system"},
		{Type: "uint8_t", Name: "target_component"},
		{Type: "uint8_t", Name: "req_stream_id"},
		{Type: "uint16_t", Name: "req_message_rate"},
		{Type: "uint8_t", Name: "start_stop"},
	}}
	// harness dialect
	DefTag = &MsgDef{Name: "VERIF_TAG", ID: 180, Fields: []FieldDef{
		{Type: "uint8_t", Name: "writer"},
		{Type: "uint8_t", Name: "flavour"},
		{Type: "uint32_t", Name: "index"},
		{Type: "uint16_t", Name: "aux"},
	}}
	DefExt = &MsgDef{Name: "VERIF_EXT", ID: 181, Fields: []FieldDef{
		{Type: "uint8_t", Name: "b"},
		{Type: "uint16_t", Name: "a"},
		{Type: "uint8_t", Name: "ext1", Ext: true},
		{Type: "uint32_t", Name: "ext2", Ext: true},
	}}
	DefStr = &MsgDef{Name: "VERIF_STR", ID: 182, Fields: []FieldDef{
		{Type: "uint32_t", Name: "idx"},
		{Type: "char", Name: "text", ArrLen: 12},
		{Type: "uint8_t", Name: "tail"},
	}}
	DefArr = &MsgDef{Name: "VERIF_ARR", ID: 183, Fields: []FieldDef{
		{Type: "uint8_t", Name: "bytes", ArrLen: 5},
		{Type: "uint16_t", Name: "vals", ArrLen: 4},
		{Type: "float", Name: "f"},
		{Type: "int64_t", Name: "big"},
		{Type: "double", Name: "d", Ext: true},
	}}
	DefBig = &MsgDef{Name: "VERIF_BIG", ID: 184, Fields: []FieldDef{
		{Type: "uint8_t", Name: "data", ArrLen: 255},
	}}
	DefHi = &MsgDef{Name: "VERIF_HI", ID: 70000, Fields: []FieldDef{
		{Type: "uint32_t", Name: "x"},
		{Type: "int16_t", Name: "y"},
	}}

	// HarnessDefs is the harness dialect.
	HarnessDefs = []*MsgDef{DefHeartbeat, DefRequestDataStream, DefTag, DefExt, DefStr, DefArr, DefBig, DefHi}
)

// DefByID finds a definition in a list.
func DefByID(defs []*MsgDef, id uint32) *MsgDef {
	for _, d := range defs {
		if d.ID == id {
			return d
		}
	}
	return nil
}

func init() {
	// self-check against the constants published with the MAVLink C library
	for _, c := range []struct {
		d    *MsgDef
		want byte
	}{{DefHeartbeat, 50}, {DefSysStatus, 124}, {DefRequestDataStream, 148}} {
		if got := c.d.CRCExtra(); got != c.want {
			panic(fmt.Sprintf("ref: CRC_EXTRA self-check failed for %s: %d != %d", c.d.Name, got, c.want))
		}
	}
	// CRC self-check: the published check value of CRC-16/MCRF4XX for "123456789" is 0x6F91.
	if CRC([]byte("123456789")) != 0x6F91 {
		panic("ref: CRC self-check failed")
	}
}
