// Package hd is the harness dialect: hand-written Go structs for the real message codec,
// mirroring the textual definitions in package ref, plus reflection glue (harness code)
// between Go message values and ref.Values.
package hd

import (
	"fmt"
	"math"
	"reflect"

	"github.com/bluenviron/gomavlib/v3/pkg/dialect"
	"github.com/bluenviron/gomavlib/v3/pkg/message"

	"verif/ref"
)

type (
	MAV_TYPE      uint64 //nolint
	MAV_AUTOPILOT uint64 //nolint
	MAV_MODE_FLAG uint64 //nolint
	MAV_STATE     uint64 //nolint
)

type MessageHeartbeat struct {
	Type           MAV_TYPE      `mavenum:"uint8"`
	Autopilot      MAV_AUTOPILOT `mavenum:"uint8"`
	BaseMode       MAV_MODE_FLAG `mavenum:"uint8"`
	CustomMode     uint32
	SystemStatus   MAV_STATE `mavenum:"uint8"`
	MavlinkVersion uint8
}

func (*MessageHeartbeat) GetID() uint32 { return 0 }

type MessageRequestDataStream struct {
	TargetSystem    uint8
	TargetComponent uint8
	ReqStreamId     uint8 //nolint
	ReqMessageRate  uint16
	StartStop       uint8
}

func (*MessageRequestDataStream) GetID() uint32 { return 66 }

type MessageVerifTag struct {
	Writer  uint8
	Flavour uint8
	Index   uint32
	Aux     uint16
}

func (*MessageVerifTag) GetID() uint32 { return 180 }

type MessageVerifExt struct {
	B    uint8
	A    uint16
	Ext1 uint8  `mavext:"true"`
	Ext2 uint32 `mavext:"true"`
}

func (*MessageVerifExt) GetID() uint32 { return 181 }

type MessageVerifStr struct {
	Idx  uint32
	Text string `mavlen:"12"`
	Tail uint8
}

func (*MessageVerifStr) GetID() uint32 { return 182 }

type MessageVerifArr struct {
	Bytes [5]uint8
	Vals  [4]uint16
	F     float32
	Big   int64
	D     float64 `mavext:"true"`
}

func (*MessageVerifArr) GetID() uint32 { return 183 }

type MessageVerifBig struct {
	Data [255]uint8
}

func (*MessageVerifBig) GetID() uint32 { return 184 }

type MessageVerifHi struct {
	X uint32
	Y int16
}

func (*MessageVerifHi) GetID() uint32 { return 70000 } // 0x011170: all three id bytes matter (v1 cannot carry it)

// A non-standard message with id 0 (for the "dialect lacks the standard heartbeat" case).
type MessageOddZero struct {
	Q uint16
}

func (*MessageOddZero) GetID() uint32 { return 0 }

// Messages in the order of ref.HarnessDefs.
func Messages() []message.Message {
	return []message.Message{&MessageHeartbeat{}, &MessageRequestDataStream{}, &MessageVerifTag{},
		&MessageVerifExt{}, &MessageVerifStr{}, &MessageVerifArr{}, &MessageVerifBig{}, &MessageVerifHi{}}
}

// DialectVersion of the harness dialect.
const DialectVersion = 3

// New returns a fresh harness dialect.
func New() *dialect.Dialect {
	return &dialect.Dialect{Version: DialectVersion, Messages: Messages()}
}

// NewRW returns an initialised dialect.ReadWriter.
func NewRW() *dialect.ReadWriter {
	rw := &dialect.ReadWriter{Dialect: New()}
	if err := rw.Initialize(); err != nil {
		panic(err)
	}
	return rw
}

// ToValues converts a Go message value to ref.Values (declaration order), harness reflection.
func ToValues(m message.Message) ref.Values {
	v := reflect.ValueOf(m).Elem()
	out := make(ref.Values, v.NumField())
	for i := 0; i < v.NumField(); i++ {
		out[i] = fieldVal(v.Field(i))
	}
	return out
}

func mask(f reflect.Value) uint64 {
	var one uint64 = 1
	return one<<(8*uint(f.Type().Size())) - 1
}

func elemBits(f reflect.Value) uint64 {
	switch f.Kind() {
	case reflect.Uint8, reflect.Uint16, reflect.Uint32, reflect.Uint64:
		return f.Uint()
	case reflect.Int8, reflect.Int16, reflect.Int32, reflect.Int64:
		return uint64(f.Int()) & mask(f)
	case reflect.Float32:
		return uint64(math.Float32bits(f.Interface().(float32))) // no float64 round trip: it would quiet signalling NaNs
	case reflect.Float64:
		return math.Float64bits(f.Float())
	}
	panic(fmt.Sprintf("hd: unsupported kind %v", f.Kind()))
}

func fieldVal(f reflect.Value) ref.Value {
	switch f.Kind() {
	case reflect.String:
		return ref.Value{Str: f.String()}
	case reflect.Array:
		el := make([]uint64, f.Len())
		for k := range el {
			el[k] = elemBits(f.Index(k))
		}
		return ref.Value{Elems: el}
	}
	return ref.Value{Elems: []uint64{elemBits(f)}}
}

func setElem(f reflect.Value, bits uint64) {
	switch f.Kind() {
	case reflect.Uint8, reflect.Uint16, reflect.Uint32, reflect.Uint64:
		f.SetUint(bits & mask(f))
	case reflect.Int8:
		f.SetInt(int64(int8(bits)))
	case reflect.Int16:
		f.SetInt(int64(int16(bits)))
	case reflect.Int32:
		f.SetInt(int64(int32(bits)))
	case reflect.Int64:
		f.SetInt(int64(bits))
	case reflect.Float32:
		f.Set(reflect.ValueOf(math.Float32frombits(uint32(bits))))
	case reflect.Float64:
		f.SetFloat(math.Float64frombits(bits))
	default:
		panic(fmt.Sprintf("hd: unsupported kind %v", f.Kind()))
	}
}

// FromValues builds a Go message of the type registered for def.ID in the harness dialect.
func FromValues(d *ref.MsgDef, vals ref.Values) message.Message {
	var proto message.Message
	for _, m := range Messages() {
		if m.GetID() == d.ID {
			proto = m
		}
	}
	if proto == nil {
		panic("hd: no Go type for " + d.Name)
	}
	v := reflect.New(reflect.TypeOf(proto).Elem())
	for i := 0; i < v.Elem().NumField(); i++ {
		f := v.Elem().Field(i)
		switch f.Kind() {
		case reflect.String:
			f.SetString(vals[i].Str)
		case reflect.Array:
			for k := 0; k < f.Len(); k++ {
				if k < len(vals[i].Elems) {
					setElem(f.Index(k), vals[i].Elems[k])
				}
			}
		default:
			if len(vals[i].Elems) > 0 {
				setElem(f, vals[i].Elems[0])
			}
		}
	}
	return v.Interface().(message.Message)
}
