package props

import (
	"fmt"
	"reflect"
	"time"

	"github.com/bluenviron/gomavlib/v3"

	"verif/dsim"
	"verif/hd"
	"verif/ref"
)

// C16 — automatic heartbeats and stream requests do what is configured, no more.
//
// Simulated system: a real node with 1..3 channels on the fake clock for simulated minutes to
// hours; configurations: heartbeats on/off, period 100 ms..60 s, system and autopilot types,
// dialect with the standard HEARTBEAT / without id 0 / with a non-standard id 0 / without id 66
// / none, stream requests on/off, frequency; senders: several (system, component, autopilot)
// identities per channel sending heartbeats (ArduPilot and others) and other messages at drawn
// times. Oracles read the reference-decoded wire logs with their fake timestamps and the
// application's events.
//
// Not demanded: that a burst is repeated after 30 s; exact heartbeat instants in runs with
// stall injection (count bounds only).

type hbSender struct {
	l         *link
	sys, comp byte
	autopilot byte
	// the first firstOther heartbeats announce another autopilot (a vehicle that is only recognised
	// as ArduPilot after a while); apSent counts the ArduPilot heartbeats sent
	firstOther int
	apSent     int
	gaps       []time.Duration
	sentAt     []time.Duration
}

var rdsStreams = []uint64{1, 2, 3, 6, 10, 11, 12}

func (l *link) sendHeartbeatAs(sys, comp, autopilot byte) error {
	dsim.EnsureReleased("peer-hb")
	l.txMu.Lock()
	f := &ref.Frame{V2: l.v2, Seq: l.seq, Sys: sys, Comp: comp, MsgID: 0}
	l.seq++
	l.txMu.Unlock()
	vals := ref.Values{{Elems: []uint64{2}}, {Elems: []uint64{uint64(autopilot)}}, {Elems: []uint64{81}}, {Elems: []uint64{7}}, {Elems: []uint64{4}}, {Elems: []uint64{3}}}
	f.Payload = ref.DefHeartbeat.Encode(vals, l.v2)
	f.Checksum = f.ComputeChecksum(ref.DefHeartbeat.CRCExtra())
	b := f.Encode()
	dsim.Record("peer-hb", fmt.Sprintf("%s sys=%d comp=%d autopilot=%d", l.name, sys, comp, autopilot), nil, int64(l.id), int64(sys), int64(comp), int64(autopilot))
	return l.transmit(b, false)
}

func c16Body() func(h []dsim.Rec) {
	cfg := genNodeCfg()
	cfg.dialectKind = dsim.Pick(0, 0, 0, 1, 2, 3, 4)
	cfg.hbDisable = dsim.Choose(4) == 3
	cfg.hbPeriod = dsim.Pick(time.Duration(0), 100*time.Millisecond, 250*time.Millisecond, time.Second, 3*time.Second, 17*time.Second, 60*time.Second)
	cfg.hbSysType = dsim.Pick(0, 0, 1, 2, 13, 27)
	cfg.hbAutopilot = dsim.Pick(0, 0, 3, 8, 12)
	cfg.srEnable = dsim.Choose(3) != 2
	cfg.srFreq = dsim.Pick(0, 0, 1, 10, 50)
	cfg.idleTO = 5 * time.Hour // silent peers must not be expired during the run
	stalls := dsim.Choose(5) == 4
	if stalls {
		dsim.EnableStalls(1 + dsim.Choose(10))
	}
	e := newEnv(cfg)
	e.w.ChunkMode = dsim.Choose(3)
	dsim.SetDate(time.Date(2030, 3, 3, 3, 0, 0, 0, time.UTC))
	e.start = time.Now()
	period := cfg.effHbPeriod()
	duration := time.Duration(10+dsim.Choose(7200)) * time.Second
	if max := 400 * period; duration > max && cfg.hbExpected() {
		duration = max
	}
	if duration < 95*time.Second && dsim.Choose(2) == 0 {
		duration = 95 * time.Second // long enough for a second stream-request burst to be legal
		if cfg.hbExpected() && duration > 1000*period {
			duration = 1000 * period
		}
	}
	// all endpoint kinds, possibly several of one kind (their channels then share a label)
	kinds := []int{epCustom, epTCPServer, epUDPServer, epCustom, epTCPServer, epUDPServer, epTCPClient, epUDPClient, epSerial, epBroadcast}
	neps := 1 + dsim.Choose(3)
	sharedIdentities := dsim.Choose(3) == 2
	twins := sharedIdentities && dsim.Choose(2) == 1
	for i := 0; i < neps; i++ {
		k := kinds[dsim.Choose(len(kinds))]
		if twins && i < 2 {
			// the same vehicle behind two endpoints of one kind: two channels with one label
			k = []int{epCustom, epSerial}[dsim.Choose(2)]
			if i == 1 {
				k = e.cfg.eps[0].kind
			}
		}
		e.addEndpoint(k)
	}
	if twins && neps < 2 {
		e.addEndpoint(e.cfg.eps[0].kind)
	}
	// transports without deadlines do not care about IdleTimeout: any value must leave the
	// 30-second stream-request bookkeeping alone
	untimed := true
	for _, ep := range e.cfg.eps {
		untimed = untimed && (ep.kind == epCustom || ep.kind == epSerial)
	}
	if untimed {
		cfg.idleTO = dsim.Pick(5*time.Hour, 0, 2*time.Second, 20*time.Second)
	}
	cons := &consumer{e: e}
	e.cons = cons
	var links []*link
	var senders []*hbSender
	d := &driverSet{e: e}
	// attach draws the senders of a link and starts them (called when the link exists)
	attach := func(l *link) {
		dsim.EnsureReleased("attach")
		ns := 1 + dsim.Choose(3)
		var mine []*hbSender
		for k := 0; k < ns; k++ {
			s := &hbSender{l: l, sys: byte(20 + 10*l.id + k), comp: byte(1 + dsim.Choose(3)), autopilot: dsim.Pick(byte(3), 3, 0, 12, 8)}
			if sharedIdentities {
				// the same vehicle is heard on several channels
				s.sys, s.comp = byte(20+k), 1
				count("cov:identity-on-several-channels")
			} else if k == 0 && dsim.Choose(4) == 0 {
				// a flight controller that shares the node's system id (the companion-computer set-up)
				s.sys, s.comp = cfg.sysID, cfg.effCompID()+1+byte(dsim.Choose(3))
				count("cov:sender-with-the-nodes-system-id")
			}
			n := 1 + dsim.Choose(6)
			if s.autopilot == 3 && dsim.Choose(4) == 0 {
				s.firstOther = 1 + dsim.Choose(2)
				count("cov:sender-becomes-ardupilot")
			}
			for i := 0; i < n; i++ {
				s.gaps = append(s.gaps, dsim.Pick(time.Duration(dsim.Choose(2000))*time.Millisecond, time.Duration(dsim.Choose(40))*time.Second, 29*time.Second, 30*time.Second, 31*time.Second))
			}
			mine = append(mine, s)
		}
		e.mu.Lock()
		links = append(links, l)
		senders = append(senders, mine...)
		e.mu.Unlock()
		for _, s := range mine {
			s := s
			d.spawn("sender", func() {
				for i, g := range s.gaps {
					dsim.Sleep(g)
					if e.now() > duration-time.Second {
						return
					}
					ap := s.autopilot
					if i < s.firstOther {
						ap = 12
					}
					e.mu.Lock()
					s.sentAt = append(s.sentAt, e.now())
					if ap == 3 {
						s.apSent++
					}
					e.mu.Unlock()
					if s.l.sendHeartbeatAs(s.sys, s.comp, ap) != nil {
						return
					}
					dsim.EnsureReleased("sender")
					if dsim.Choose(3) == 0 && cfg.hasDialect() {
						s.l.send(sendValid, false) //nolint: other traffic
					}
				}
			})
		}
	}
	// endpoints whose peer is reached by the node: the peer listens before the node starts
	for _, ep := range e.cfg.eps {
		ep := ep
		first := true
		onLink := func(l *link) {
			if ep.kind == epSerial && l.ordinal == 0 {
				return // the existence test of Initialize
			}
			if !first {
				return
			}
			first = false
			d.spawn("attach", func() { attach(l) })
		}
		var err error
		switch ep.kind {
		case epTCPClient:
			_, err = e.tcpServerPeer(ep, onLink)
		case epSerial:
			e.serialPeer(ep, onLink)
		case epUDPClient, epBroadcast:
			_, err = e.packetPeer(ep, onLink)
		}
		if err != nil {
			dsim.Failf("harness", "peer listen: %v", err)
			return nil
		}
	}
	if cfg.hbExpected() && cfg.dialectKind == 0 && int(duration/time.Second)%3 == 0 {
		// an earlier node of the same process, built on the same Dialect value with another
		// heartbeat configuration (an application that restarts its node, or runs two): what the
		// node under test announces is its own configuration. No draw is spent on the decision, so
		// the other two thirds of the runs are the ones explored before.
		cfg.shared = hd.New()
		pa, pb := e.w.Pipe("earlier")
		pn := &gomavlib.Node{Dialect: cfg.shared, OutVersion: gomavlib.V2, OutSystemID: 201, HeartbeatPeriod: 100 * time.Millisecond,
			HeartbeatSystemType: cfg.hbSysType + 5, HeartbeatAutopilotType: cfg.hbAutopilot + 1,
			Endpoints: []gomavlib.EndpointConf{gomavlib.EndpointCustom{ReadWriteCloser: pa}}}
		if err := pn.Initialize(); err != nil {
			dsim.Failf("harness", "earlier node did not initialise: %v", err)
			return nil
		}
		dsim.Go("earlier-consumer", func() {
			for range pn.Events() { //nolint
			}
		})
		dsim.Go("earlier-peer", func() {
			buf := make([]byte, 512)
			for {
				if _, err := pb.Read(buf); err != nil {
					return
				}
			}
		})
		dsim.Sleep(350 * time.Millisecond)
		pn.Close()
		pb.Close()
		count("cov:earlier-node-same-dialect")
	}
	if err := e.startNode(); err != nil {
		dsim.Failf("harness", "node did not initialise: %v", err)
		return nil
	}
	nodeStart := e.now()
	dsim.Go("consumer", cons.run)
	for _, ep := range e.cfg.eps {
		switch ep.kind {
		case epCustom:
			attach(e.customLink(ep))
		case epTCPServer, epUDPServer:
			np := 1 + dsim.Choose(2)
			for i := 0; i < np; i++ {
				var l *link
				var err error
				if ep.kind == epTCPServer {
					l, err = e.dialTCPPeer(ep)
				} else {
					l, err = e.dialUDPPeer(ep)
					if err == nil {
						err = l.send(sendValid, false)
					}
				}
				if err != nil {
					dsim.Failf("harness", "peer: %v", err)
					return nil
				}
				attach(l)
			}
		}
	}
	dsim.Sleep(duration - e.now())
	d.wait(10 * time.Second)
	dsim.Sleep(700 * time.Millisecond)
	dsim.Settle("quiescence")
	events := cons.snapshot()
	tEnd := e.now()
	e.node.Close()
	dsim.Record("duration", "", nil, int64(duration), int64(period))

	return func(h []dsim.Rec) {
		chOf := map[*link]*gomavlib.Channel{}
		openAt := map[*link]time.Duration{}
		for ch, l := range e.chanLinks(events) {
			chOf[l] = ch
		}
		for _, o := range events {
			if o.kind == evOpen {
				for l, ch := range chOf {
					if ch == o.ch {
						openAt[l] = o.t
					}
				}
			}
		}
		wantType := uint64(cfg.hbSysType)
		if wantType == 0 {
			wantType = 6 // MAV_TYPE_GCS, as documented
		}
		for _, l := range links {
			// wire frames with the time at which their first byte arrived
			type wf struct {
				f *ref.Frame
				t time.Duration
			}
			var wire []wf
			var all []byte
			var tOf []time.Duration
			for _, c := range l.rx {
				for range c.data {
					tOf = append(tOf, c.t)
				}
				all = append(all, c.data...)
			}
			frames, offs, _, err := ref.ParseStream(all)
			if err != nil {
				dsim.Failf("wire-clean", "%s: %v", l.name, err)
				return
			}
			for i, f := range frames {
				wire = append(wire, wf{f, tOf[offs[i]]})
			}
			// ---- heartbeats
			var hbTimes []time.Duration
			for _, w := range wire {
				if w.f.MsgID != 0 || w.f.Sys != cfg.sysID {
					continue
				}
				if !cfg.hbExpected() {
					dsim.Failf("heartbeat-only-when-configured", "%s: a heartbeat was sent at t=%v although heartbeats are %s (dialect kind %d)", l.name, w.t, map[bool]string{true: "disabled", false: "not possible with this dialect"}[cfg.hbDisable], cfg.dialectKind)
					return
				}
				vals, err := ref.DefHeartbeat.Decode(w.f.Payload, w.f.V2)
				if err != nil {
					dsim.Failf("heartbeat-content", "%s: heartbeat does not decode: %v", l.name, err)
					return
				}
				got := []uint64{vals[0].Elems[0], vals[1].Elems[0], vals[2].Elems[0], vals[3].Elems[0], vals[4].Elems[0], vals[5].Elems[0]}
				want := []uint64{wantType, uint64(cfg.hbAutopilot), 0, 0, 4, 3}
				for i := range want {
					if got[i] != want[i] {
						dsim.Failf("heartbeat-content", "%s: heartbeat at t=%v carries (type, autopilot, base_mode, custom_mode, system_status, mavlink_version) = %v, configured %v", l.name, w.t, got, want)
						return
					}
				}
				hbTimes = append(hbTimes, w.t)
			}
			if cfg.hbExpected() {
				ot, seen := openAt[l]
				if !seen {
					dsim.Failf("harness", "%s has no channel", l.name)
					return
				}
				// every tick that falls while the channel is known open must be there, exactly once
				expect := 0
				idx := 0
				for k := 1; ; k++ {
					tick := nodeStart + time.Duration(k)*period
					if tick > tEnd-time.Millisecond {
						break
					}
					if tick <= ot {
						// channel may or may not have been registered yet: accept either
						for idx < len(hbTimes) && hbTimes[idx] <= ot {
							idx++
						}
						continue
					}
					expect++
					if stalls {
						continue
					}
					if idx >= len(hbTimes) || hbTimes[idx] != tick {
						var got interface{} = "none"
						if idx < len(hbTimes) {
							got = hbTimes[idx]
						}
						dsim.Failf("heartbeat-spacing", "%s: heartbeats are configured every %v; the one due at t=%v is missing or misplaced (next heartbeat on the wire: %v; channel open since t=%v)", l.name, period, tick, got, ot)
						return
					}
					idx++
				}
				for idx < len(hbTimes) && hbTimes[idx] >= tEnd-time.Millisecond {
					idx++ // a tick at the very instant of the final observation may or may not be included
				}
				if !stalls && idx != len(hbTimes) {
					dsim.Failf("heartbeat-spacing", "%s: %d heartbeats on the wire beyond the %d ticks of the period %v (extra at t=%v)", l.name, len(hbTimes)-idx, expect, period, hbTimes[idx])
					return
				}
				if stalls && len(hbTimes) > expect+int(ot/period)+2 {
					dsim.Failf("heartbeat-spacing", "%s: %d heartbeats for about %d ticks", l.name, len(hbTimes), expect)
					return
				}
				if expect > 0 {
					count("cov:heartbeat-ticks-checked")
				}
			}
			// ---- stream requests on this link
			type key struct{ sys, comp byte }
			reqs := map[key][]wf{}
			var order []key
			for _, w := range wire {
				if w.f.MsgID != 66 || w.f.Sys != cfg.sysID {
					continue
				}
				if !cfg.srExpected() {
					dsim.Failf("stream-requests-only-when-configured", "%s: a REQUEST_DATA_STREAM was sent at t=%v although stream requests are off / impossible (enable=%v dialect kind %d)", l.name, w.t, cfg.srEnable, cfg.dialectKind)
					return
				}
				vals, err := ref.DefRequestDataStream.Decode(w.f.Payload, w.f.V2)
				if err != nil {
					dsim.Failf("stream-request-content", "%s: %v", l.name, err)
					return
				}
				k := key{byte(vals[0].Elems[0]), byte(vals[1].Elems[0])}
				if _, ok := reqs[k]; !ok {
					order = append(order, k)
				}
				reqs[k] = append(reqs[k], w)
			}
			wantRate := uint64(cfg.srFreq)
			if wantRate == 0 {
				wantRate = 4
			}
			for _, k := range order {
				// the target must be an ArduPilot sender of THIS link
				var snd *hbSender
				for _, s := range senders {
					if s.l == l && s.sys == k.sys && s.comp == k.comp {
						snd = s
					}
				}
				if snd == nil {
					dsim.Failf("stream-request-target", "%s: stream requests addressed to sys=%d comp=%d, which never sent anything on this channel", l.name, k.sys, k.comp)
					return
				}
				if snd.autopilot != 3 {
					dsim.Failf("stream-request-target", "%s: stream requests addressed to sys=%d comp=%d whose autopilot type is %d, not ArduPilot (3)", l.name, k.sys, k.comp, snd.autopilot)
					return
				}
				rs := reqs[k]
				if stalls {
					// a task preempted for longer than the write timeout between arming the deadline
					// and writing loses that request (the socket refuses the late write): bursts may
					// be incomplete; what was sent must still be a standard request for this sender
					for _, r := range rs {
						vals, _ := ref.DefRequestDataStream.Decode(r.f.Payload, r.f.V2)
						stream, rate, startStop := vals[2].Elems[0], vals[3].Elems[0], vals[4].Elems[0]
						std := false
						for _, x := range rdsStreams {
							std = std || x == stream
						}
						if !std || rate != wantRate || startStop != 1 {
							dsim.Failf("stream-request-content", "%s: request for sys=%d: stream=%d rate=%d start=%d, expected a standard stream, rate=%d start=1", l.name, k.sys, stream, rate, startStop, wantRate)
							return
						}
					}
					if len(rs) > 7*len(snd.sentAt) {
						dsim.Failf("stream-request-rate-limit", "%s: %d requests for a sender that sent %d heartbeats", l.name, len(rs), len(snd.sentAt))
						return
					}
					continue
				}
				if len(rs)%7 != 0 {
					dsim.Failf("stream-request-content", "%s: %d stream requests for sys=%d comp=%d, not a multiple of the seven standard streams", l.name, len(rs), k.sys, k.comp)
					return
				}
				var last time.Duration
				for b := 0; b < len(rs)/7; b++ {
					for i := 0; i < 7; i++ {
						vals, _ := ref.DefRequestDataStream.Decode(rs[b*7+i].f.Payload, rs[b*7+i].f.V2)
						stream, rate, startStop := vals[2].Elems[0], vals[3].Elems[0], vals[4].Elems[0]
						if stream != rdsStreams[i] || rate != wantRate || startStop != 1 {
							dsim.Failf("stream-request-content", "%s: request %d of burst %d for sys=%d: stream=%d rate=%d start=%d, expected stream=%d rate=%d start=1", l.name, i, b, k.sys, stream, rate, startStop, rdsStreams[i], wantRate)
							return
						}
					}
					t := rs[b*7].t
					if b > 0 && t-last < 30*time.Second && !stalls {
						dsim.Failf("stream-request-rate-limit", "%s: two bursts for sys=%d comp=%d only %v apart (t=%v and t=%v)", l.name, k.sys, k.comp, t-last, last, t)
						return
					}
					last = t
					if b > 0 {
						count("cov:second-burst")
					}
				}
				if len(rs)/7 > snd.apSent {
					dsim.Failf("stream-request-rate-limit", "%s: %d bursts for a sender that sent %d ArduPilot heartbeats", l.name, len(rs)/7, snd.apSent)
					return
				}
				// one event per burst
				nev := 0
				for _, o := range events {
					if o.kind == evStreamReq && o.sys == k.sys && o.comp == k.comp && o.ch == chOf[l] {
						nev++
					}
				}
				if nev != len(rs)/7 {
					dsim.Failf("stream-request-event", "%s: %d bursts for sys=%d comp=%d but %d EventStreamRequested", l.name, len(rs)/7, k.sys, k.comp, nev)
					return
				}
				count("cov:burst-checked")
			}
			// every ArduPilot sender whose heartbeat reached the application got its burst
			if cfg.srExpected() {
				for _, s := range senders {
					if s.l != l || s.autopilot != 3 {
						continue
					}
					arrived := false
					for _, o := range events {
						if o.kind == evFrame && o.ch == chOf[l] && o.sys == s.sys && o.comp == s.comp && o.fr.GetMessage().GetID() == 0 {
							// (an ArduPilot heartbeat: earlier ones of this sender may have announced another autopilot)
							if v := reflect.ValueOf(o.fr.GetMessage()); v.Kind() == reflect.Ptr && v.Elem().Kind() == reflect.Struct {
								if f := v.Elem().FieldByName("Autopilot"); f.IsValid() && f.CanUint() && f.Uint() == 3 {
									arrived = true
								}
							}
						}
					}
					if arrived && len(reqs[key{s.sys, s.comp}]) == 0 && !stalls {
						dsim.Failf("stream-request-trigger", "%s: the ArduPilot heartbeat of sys=%d comp=%d reached the application but no stream request was sent to it", l.name, s.sys, s.comp)
						return
					}
				}
			}
		}
		for _, o := range events {
			if o.kind != evStreamReq {
				continue
			}
			ok := false
			for _, s := range senders {
				if chOf[s.l] == o.ch && s.sys == o.sys && s.comp == o.comp && s.autopilot == 3 {
					ok = true
				}
			}
			if !ok && cfg.srExpected() {
				dsim.Failf("stream-request-target", "EventStreamRequested names channel %s and sys=%d comp=%d, but no ArduPilot system with that identity sent a heartbeat on that channel", o.ch.String(), o.sys, o.comp)
				return
			}
		}
		if !cfg.srExpected() {
			for _, o := range events {
				if o.kind == evStreamReq {
					dsim.Failf("stream-requests-only-when-configured", "EventStreamRequested although stream requests are off / impossible")
					return
				}
			}
		}
	}
}

func init() {
	register(&Prop{
		ID:       "C16",
		MaxSteps: 1500000,
		Horizon:  40 * 365 * 24 * time.Hour,
		Body:     c16Body,
		Rule: "one evaluation = one simulated deployment running 10 s .. 2 h of simulated time (at most 1000 heartbeat periods): drawn " +
			"heartbeat configuration (disabled, period 100 ms..60 s or default, system type, autopilot type), dialect (standard, none, " +
			"without id 0, non-standard id 0, without id 66), stream requests (on/off, frequency), 1..4 channels, 1..3 sender identities per " +
			"channel (ArduPilot and others) sending 1..6 heartbeats at drawn gaps (incl. 29/30/31 s) interleaved with other traffic; wire " +
			"logs are decoded by the reference codec with their fake timestamps; distinct = distinct schedule hash + history digest; " +
			"non-trivial = at least one heartbeat tick or one stream-request burst was checked",
		Nontrivial: func(r *dsim.Result) bool {
			return r.Probes["cov:heartbeat-ticks-checked"]+r.Probes["cov:burst-checked"] > 0
		},
		ProbeUniverse: []string{"cov:heartbeat-ticks-checked", "cov:burst-checked", "cov:second-burst", "cov:sender-with-the-nodes-system-id", "cov:identity-on-several-channels", "cov:earlier-node-same-dialect"},
		Real:          []string{"gomavlib (Node, nodeHeartbeat, nodeStreamRequest, Channel; instrumented with scheduling points only)", "pkg/frame", "pkg/message", "pkg/dialect", "pkg/streamwriter"},
		Stub:          []string{"goroutine scheduler (dsim)", "clock (synctest)", "net sockets, pion UDP listener", "crypto/rand"},
	})
}
