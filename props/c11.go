package props

import (
	"fmt"
	"time"

	"github.com/bluenviron/gomavlib/v3"
	"github.com/bluenviron/gomavlib/v3/pkg/frame"
	"github.com/bluenviron/gomavlib/v3/pkg/message"

	"verif/hd"
	"verif/world"

	"verif/dsim"
	"verif/ref"
)

// C11 — write fan-out: all / one / all-but-one, exactly once, FIFO per channel.
//
// Simulated system: a real node with k stable channels (seen open by the application before
// the writers start, never failing) plus churning TCP peers, m writer tasks issuing the six
// Write* calls with uniquely tagged items, incoming traffic and event consumption interleaved;
// writes naming a closed channel, a channel of another (real, second) node and nil. Flow
// control keeps every stable channel's backlog below its queue (outstanding items per channel
// <= 40), so nothing may be dropped.
//
// Not demanded: a global order across channels or across writers; anything about items
// addressed to churning channels beyond "at most once, never where excluded".

// flow is the application-level flow control shared by writers and peers.
type flow struct {
	e        *env
	reserved map[*link]int
	received map[*link]int
	parsed   map[*link]int // bytes of the link's wire already counted
}

func (f *flow) noteRx(l *link) {
	// count the tagged application items received so far (called by the link's rx task)
	w := l.wire()
	frames, _, _, _ := ref.ParseStream(w)
	n := 0
	for _, fr := range frames {
		if wr, _, _, ok := tagOf(fr); ok && wr < 100 {
			n++
		}
	}
	f.e.mu.Lock()
	f.received[l] = n
	f.e.mu.Unlock()
}

func (f *flow) reserve(dests []*link, limit int) bool {
	f.e.mu.Lock()
	defer f.e.mu.Unlock()
	for _, l := range dests {
		if f.reserved[l]-f.received[l] >= limit {
			return false
		}
	}
	for _, l := range dests {
		f.reserved[l]++
	}
	return true
}

type fanItem struct {
	sub   *submit
	dests map[*link]bool // stable links that must receive it exactly once
	never map[*link]bool // links that must not receive it
}

// fanOpt parametrises the fan-out scenario (shared by C11 and the node-level part of C09).
type fanOpt struct {
	manyOps   bool // hundreds of writes per link (beyond the 256 wrap-around)
	rejected  bool // writers also issue writes that cannot be encoded
	streamReq bool // stream requests on; peers announce themselves as ArduPilot
	check     func(e *env, stable, churn []*link, items [][]fanItem)
}

func c11Body() func(h []dsim.Rec) {
	return fanoutRun(fanOpt{check: func(e *env, stable, churn []*link, items [][]fanItem) { e.checkFanout(stable, churn, items) }})
}

func fanoutRun(opt fanOpt) func(h []dsim.Rec) {
	cfg := genNodeCfg()
	cfg.srEnable = opt.streamReq
	if dsim.Choose(6) == 5 {
		cfg.dialectKind = 1
	}
	if dsim.Choose(4) == 3 {
		k := genKey()
		cfg.outKey = &k
		cfg.version = 2
	}
	cfg.hbPeriod = time.Duration(300+dsim.Choose(3000)) * time.Millisecond
	cfg.hbDisable = dsim.Choose(3) == 2
	cfg.writeTO = dsim.Pick(time.Duration(0), 300*time.Millisecond, time.Second)
	cfg.idleTO = 3 * time.Hour // stable peers may be silent for the whole run
	e := newEnv(cfg)
	e.w.ChunkMode = dsim.Choose(3)
	e.w.SendBuf = dsim.Pick(1<<16, 4096, 512)
	planFlaky := dsim.Choose(4) == 3
	if planFlaky {
		e.w.SendBuf = 300 // a slow link: the channel's writer is often inside a transport write
	}
	dsim.SetDate(time.Date(2027, 3, 1, 0, 0, 0, 0, time.UTC))
	e.start = time.Now()

	// endpoints: 1..3, stable peers on each
	kinds := []int{epCustom, epTCPServer, epUDPServer, epTCPClient, epSerial, epUDPClient, epBroadcast}
	neps := 1 + dsim.Choose(depth(3, 5))
	for i := 0; i < neps; i++ {
		k := kinds[dsim.Choose(len(kinds))]
		if i == 0 && planFlaky {
			k = epCustom // the flaky link is a custom transport
		}
		e.addEndpoint(k)
	}
	fl := &flow{e: e, reserved: map[*link]int{}, received: map[*link]int{}, parsed: map[*link]int{}}
	var stable []*link
	addStable := func(l *link) {
		e.mu.Lock()
		stable = append(stable, l)
		e.mu.Unlock()
	}
	expectStable := 0
	needHello := false
	var tcpServerEp *epCfg
	for _, ep := range e.cfg.eps {
		ep := ep
		switch ep.kind {
		case epCustom:
			addStable(e.customLink(ep))
			expectStable++
		case epTCPClient:
			first := true
			e.tcpServerPeer(ep, func(l *link) { //nolint
				if first {
					first = false
					addStable(l)
				}
			})
			expectStable++
		case epSerial:
			e.serialPeer(ep, func(l *link) {
				if l.ordinal == 1 {
					addStable(l)
				}
			})
			expectStable++
		case epTCPServer:
			tcpServerEp = ep
		case epUDPClient, epBroadcast:
			// the peer learns the node's socket from the first datagram the node sends
			first := true
			if _, err := e.packetPeer(ep, func(l *link) {
				if first {
					first = false
					addStable(l)
				}
			}); err != nil {
				dsim.Failf("harness", "peer packet listen: %v", err)
				return nil
			}
			expectStable++
			needHello = true
		}
	}
	appPace := dsim.Choose(4)
	cons := &consumer{e: e} // prompt while the deployment comes up, then at the drawn pace
	e.cons = cons
	if err := e.startNode(); err != nil {
		dsim.Failf("harness", "node did not initialise: %v", err)
		return nil
	}
	dsim.Go("consumer", cons.run)
	for _, ep := range e.cfg.eps {
		ep := ep
		if ep.kind != epTCPServer && ep.kind != epUDPServer {
			continue
		}
		np := 1 + dsim.Choose(2)
		for i := 0; i < np; i++ {
			expectStable++
			var l *link
			var err error
			if ep.kind == epTCPServer {
				l, err = e.dialTCPPeer(ep)
			} else {
				l, err = e.dialUDPPeer(ep)
				if err == nil {
					err = l.send(sendValid, false) // the node learns about a UDP peer from its first datagram
				}
			}
			if err != nil {
				dsim.Failf("harness", "stable peer could not connect: %v", err)
				return nil
			}
			addStable(l)
		}
	}
	// a channel that is already closed when the writers start
	var closedCh *gomavlib.Channel
	extraOpens := 0
	if tcpServerEp != nil && dsim.Choose(2) == 0 {
		l, err := e.dialTCPPeer(tcpServerEp)
		if err == nil {
			extraOpens++
			dsim.Sleep(50 * time.Millisecond)
			l.closeByPeer(false)
		}
	}
	if needHello {
		// with heartbeats off nothing leaves the node by itself: the application says hello (a
		// forwarded frame that no oracle counts) until every datagram peer has heard the node
		dsim.Go("hello", func() {
			for i := 0; i < 100; i++ {
				e.mu.Lock()
				ns := len(stable)
				e.mu.Unlock()
				if ns >= expectStable {
					return
				}
				e.node.WriteFrameAll(helloFrame(e.cfg.version == 2, uint32(i))) //nolint
				dsim.Sleep(200 * time.Millisecond)
			}
		})
	}
	// wait until the application has seen every stable channel open
	deadline := e.now() + 30*time.Second
	for {
		n := 0
		for _, o := range cons.snapshot() {
			if o.kind == evOpen {
				n++
			}
		}
		e.mu.Lock()
		ns := len(stable)
		e.mu.Unlock()
		if ns == expectStable && n >= expectStable+extraOpens {
			break
		}
		if e.now() > deadline {
			dsim.Failf("harness", "stable channels did not open: %d links, %d open events, expected %d", ns, n, expectStable)
			return nil
		}
		dsim.Sleep(20 * time.Millisecond)
	}
	dsim.Sleep(300 * time.Millisecond)
	dsim.Settle("setup")
	e.mu.Lock()
	cons.pace = appPace
	e.mu.Unlock()
	setupEvents := cons.snapshot()
	chOf := map[*link]*gomavlib.Channel{}
	for ch, l := range e.chanLinks(setupEvents) {
		chOf[l] = ch
	}
	for _, o := range setupEvents {
		if o.kind == evClose {
			closedCh = o.ch
		}
	}
	var stableCh []*gomavlib.Channel
	for _, l := range stable {
		ch := chOf[l]
		if ch == nil {
			dsim.Failf("harness", "stable link %s has no channel", l.name)
			return nil
		}
		stableCh = append(stableCh, ch)
		l := l
		_ = l
	}
	// peers count what they receive (flow control)
	for _, l := range stable {
		l := l
		e.mu.Lock()
		l.onData = func() { fl.noteRx(l) }
		e.mu.Unlock()
		fl.noteRx(l)
	}
	e.mu.Lock()
	for _, l := range stable {
		fl.reserved[l] = fl.received[l]
	}
	e.mu.Unlock()
	// a second real node, to obtain a foreign channel
	var foreignCh *gomavlib.Channel
	var node2 *gomavlib.Node
	var foreignLink *link
	if dsim.Choose(3) == 0 {
		p2, p2peer := e.w.Pipe("foreign")
		foreignLink = e.streamLink(&epCfg{kind: epCustom}, p2peer, "foreign")
		node2 = &gomavlib.Node{Endpoints: []gomavlib.EndpointConf{gomavlib.EndpointCustom{ReadWriteCloser: p2}},
			OutVersion: gomavlib.V2, OutSystemID: 77, HeartbeatDisable: true}
		if err := node2.Initialize(); err != nil {
			dsim.Failf("harness", "second node: %v", err)
			return nil
		}
		evt := dsim.Recv("events2", node2.Events())
		if o, ok := evt.(*gomavlib.EventChannelOpen); ok {
			foreignCh = o.Channel
		}
		dsim.Go("consumer2", func() {
			for {
				if _, ok := dsim.Recv2("events2", node2.Events()); !ok {
					return
				}
			}
		})
	}

	// churn: TCP peers that come and go while the writers run
	d := &driverSet{e: e}
	var churnLinks []*link
	if tcpServerEp != nil && dsim.Choose(2) == 0 {
		rounds := 1 + dsim.Choose(3)
		d.spawn("churn", func() {
			for i := 0; i < rounds; i++ {
				dsim.EnsureReleased("churn")
				dsim.Sleep(time.Duration(dsim.Choose(300)) * time.Millisecond)
				l, err := e.dialTCPPeer(tcpServerEp)
				if err != nil {
					return
				}
				e.mu.Lock()
				churnLinks = append(churnLinks, l)
				e.mu.Unlock()
				count("cov:churn-channel")
				dsim.EnsureReleased("churn")
				dsim.Sleep(time.Duration(dsim.Choose(500)) * time.Millisecond)
				l.closeByPeer(dsim.Choose(2) == 1)
			}
		})
	}
	if opt.streamReq {
		// every peer announces an ArduPilot autopilot: the node answers with stream requests
		for _, l := range stable {
			l := l
			d.spawn("peer-hb", func() { l.sendHeartbeat(3) })
		}
	}
	// a transient read error on a custom transport: its channel is replaced while the writers go
	// on; the link is only checked for order, at-most-once and whole frames from then on
	var flaky *link
	if planFlaky {
		for _, l := range stable {
			if l.ep.kind == epCustom {
				flaky = l
			}
		}
	}
	if flaky != nil {
		flaky.lossy = true
		at := time.Duration(dsim.Choose(4000)) * time.Millisecond
		d.spawn("flaky", func() {
			dsim.Sleep(at)
			// the peer stops draining for a while: the writer is stuck in a transport write when
			// the read side fails
			flaky.pauseRx(true)
			dsim.Sleep(time.Duration(300+dsim.Choose(1500)) * time.Millisecond)
			dsim.Go("flaky-resume", func() {
				dsim.Sleep(time.Duration(200+dsim.Choose(2000)) * time.Millisecond)
				flaky.pauseRx(false)
			})
			flaky.ep.pipe.SetFaults(world.Faults{ReadErrAt: flaky.ep.pipe.ReadCount() + 1, ReadErr: errInjectedRead, ReadErrOnce: true})
			count("fault:transient-read-error")
			flaky.send(sendValid, false) //nolint: makes the node return from its pending read and read again
			flaky.send(sendValid, false) //nolint
		})
	}
	// incoming traffic on stable links
	for _, l := range stable {
		l := l
		n := dsim.Choose(6)
		if n > 0 {
			d.spawn("peer-drv", func() { e.peerScript(l, n, false) })
		}
	}

	// writers
	nw := 1 + dsim.Choose(depth(4, 6))
	var items [][]fanItem
	items = make([][]fanItem, nw)
	for wi := 0; wi < nw; wi++ {
		wi := wi
		w := &writer{e: e, id: wi + 1}
		e.writers = append(e.writers, w)
		nops := 1 + dsim.Choose(30)
		if opt.manyOps {
			nops = 150 + dsim.Choose(250)
		}
		if dsim.Choose(6) == 5 {
			nops = 60 + dsim.Choose(100)
		}
		d.spawn("writer", func() {
			for j := 0; j < nops; j++ {
				dsim.EnsureReleased("writer")
				if opt.rejected && dsim.Choose(10) == 0 {
					count("fault:rejected-write")
					dsim.Record("submit-bad", "", nil, int64(wi+1))
					switch dsim.Choose(3) {
					case 0:
						e.node.WriteMessageAll(&message.MessageRaw{ID: 9999, Payload: []byte{1}}) //nolint: id outside the dialect
					case 1:
						if cfg.version == 1 {
							e.node.WriteMessageAll(&hd.MessageVerifHi{X: 3}) //nolint: id 70000 on a v1 link
						}
					case 2:
						if err := e.node.WriteMessageAll(&notInDialect{}); err == nil {
							dsim.Failf("write-accepted", "a decoded message whose type is not in the dialect was accepted")
						}
					}
					continue
				}
				op := dsim.Choose(numOps)
				if opt.manyOps && op >= opFrameAll && dsim.Choose(3) != 0 {
					op -= 3 // mostly originated messages
				}
				if !e.cfg.hasDialect() {
					op = opFrameAll + op%3 // without a dialect only pre-built frames can be written
				}
				raw := dsim.Choose(3) == 0
				var target *gomavlib.Channel
				special := ""
				var tl *link
				if op == opMsgTo || op == opMsgExcept || op == opFrameTo || op == opFrameExcept {
					switch c := dsim.Choose(10); {
					case c == 9 && closedCh != nil:
						target, special = closedCh, "closed"
						count("cov:write-to-closed")
					case c == 8 && foreignCh != nil:
						target, special = foreignCh, "foreign"
						count("cov:write-to-foreign")
					case c == 7:
						target, special = nil, "nil"
					case c == 6:
						// a churning channel, if the application currently knows one
						for _, ch := range e.openChannels() {
							isStable := false
							for _, s := range stableCh {
								if s == ch {
									isStable = true
								}
							}
							if !isStable {
								target, special = ch, "churn"
							}
						}
						if target == nil {
							k := dsim.Choose(len(stable))
							target, tl = stableCh[k], stable[k]
						}
					default:
						k := dsim.Choose(len(stable))
						target, tl = stableCh[k], stable[k]
					}
				}
				it := fanItem{dests: map[*link]bool{}, never: map[*link]bool{}}
				isTo := op == opMsgTo || op == opFrameTo
				isExcept := op == opMsgExcept || op == opFrameExcept
				for _, l := range stable {
					switch {
					case isTo:
						if l == tl && special == "" {
							it.dests[l] = true
						} else {
							it.never[l] = true
						}
					case isExcept:
						if l == tl && special == "" {
							it.never[l] = true
						} else {
							it.dests[l] = true
						}
					default:
						it.dests[l] = true
					}
				}
				var dl []*link
				for _, l := range stable {
					if it.dests[l] && !l.lossy {
						dl = append(dl, l)
					}
				}
				waitStart := e.now()
				for !fl.reserve(dl, 40) {
					count("cov:flow-control-wait")
					if e.now()-waitStart > 20*time.Second {
						dsim.Failf("exactly-once", "writer %d: 40 items written to a stable channel have not reached its peer for 20 simulated seconds (items are being dropped or the channel is stuck)", wi+1)
						return
					}
					dsim.Sleep(5 * time.Millisecond)
				}
				w.writeOne(op, target, special, raw)
				it.sub = &w.subs[len(w.subs)-1]
				items[wi] = append(items[wi], it)
				dsim.EnsureReleased("writer")
				switch dsim.Choose(12) {
				case 0, 1, 2:
					dsim.Sleep(time.Duration(dsim.Choose(200)) * time.Millisecond)
				case 3:
					if !opt.manyOps {
						// a quiet period, longer than any write timeout
						count("cov:quiet-period")
						dsim.Sleep(time.Duration(1100+dsim.Choose(3000)) * time.Millisecond)
					}
				}
			}
		})
	}
	if !d.wait(600 * time.Second) {
		dsim.Failf("fanout-liveness", "writers did not finish within 600 simulated seconds (a Write* call or the flow control is stuck)")
	}
	e.mu.Lock()
	cons.pace = 0
	e.mu.Unlock()
	dsim.Sleep(3 * time.Second)
	dsim.Settle("quiescence")
	e.node.Close()
	if node2 != nil {
		node2.Close()
	}
	return func(h []dsim.Rec) {
		opt.check(e, stable, churnLinks, items)
		if foreignLink != nil {
			frames, _, _, _ := ref.ParseStream(foreignLink.wire())
			for _, f := range frames {
				if wr, _, idx, ok := tagOf(f); ok && wr < 100 {
					dsim.Failf("isolation", "item w%d#%d written on this node came out of a channel of ANOTHER node", wr, idx)
					return
				}
			}
		}
	}
}

func btoi(b bool) int {
	if b {
		return 1
	}
	return 0
}

type wireItem struct {
	pos    int
	f      *ref.Frame
	writer byte
	op     byte
	index  uint32
}

// checkFanout evaluates the C11 oracles over the wire logs.
func (e *env) checkFanout(stable, churn []*link, items [][]fanItem) {
	e.checkFanoutEx(stable, nil, churn, items)
}

// checkFanoutEx: stable links must receive everything exactly once; lossy links (stalled or
// failed) are checked for at-most-once, order and isolation only.
// helloFrame is a forwarded frame of "writer" 250, which no oracle counts as an item.
func helloFrame(v2 bool, idx uint32) frame.Frame {
	f := &ref.Frame{V2: v2, Seq: byte(idx), Sys: 199, Comp: 1, MsgID: ref.DefTag.ID}
	f.Payload = ref.DefTag.Encode(tagVals(250, byte(opFrameAll), idx, 0), v2)
	f.Checksum = f.ComputeChecksum(ref.DefTag.CRCExtra())
	return fromRef(f)
}

func (e *env) checkFanoutEx(stable, lossy, churn []*link, items [][]fanItem) {
	isLossy := map[*link]bool{}
	for _, l := range lossy {
		isLossy[l] = true
	}
	for _, l := range stable {
		if l.lossy {
			isLossy[l] = true
		}
	}
	stable = append(append([]*link(nil), stable...), lossy...)
	parse := func(l *link) ([]wireItem, bool) {
		frames, _, rest, err := ref.ParseStream(l.wire())
		if err != nil {
			dsim.Failf("whole-frames", "%s: the outgoing byte stream is not a clean concatenation of frames: %v", l.name, err)
			return nil, false
		}
		if len(rest) != 0 && !l.peerClosed && !isLossy[l] {
			dsim.Failf("whole-frames", "%s: %d trailing bytes that are not a whole frame at quiescence: %s", l.name, len(rest), hexs(rest))
			return nil, false
		}
		var out []wireItem
		var lastTS uint64
		for i, f := range frames {
			if e.cfg.outKey != nil && f.Sys == e.cfg.sysID && f.Signed() && f.ComputeSignature(*e.cfg.outKey) == f.Signature {
				if f.Timestamp < lastTS {
					dsim.Failf("signature-timestamp-monotone", "%s: signature timestamps decrease on the link: %d after %d (frame %d)", l.name, f.Timestamp, lastTS, i)
					return nil, false
				}
				lastTS = f.Timestamp
			}
			if d := ref.DefByID(ref.HarnessDefs, f.MsgID); d != nil {
				if f.ComputeChecksum(d.CRCExtra()) != f.Checksum {
					dsim.Failf("whole-frames", "%s: frame %d has a wrong checksum: %s", l.name, i, f)
					return nil, false
				}
			}
			if e.cfg.outKey != nil && f.Sys == e.cfg.sysID && f.MsgID == ref.DefTag.ID {
				// originated frames are signed with the outgoing key
				if wr, _, _, ok := tagOf(f); ok && wr < 100 {
					_ = wr
				}
			}
			if wr, op, idx, ok := tagOf(f); ok && wr < 100 {
				out = append(out, wireItem{pos: i, f: f, writer: wr, op: op, index: idx})
			}
		}
		return out, true
	}
	for _, l := range stable {
		got, ok := parse(l)
		if !ok {
			return
		}
		seen := map[[2]uint32]int{}
		lastIdx := map[byte]int64{}
		for _, g := range got {
			key := [2]uint32{uint32(g.writer), g.index}
			seen[key]++
			if seen[key] > 1 {
				dsim.Failf("exactly-once", "%s: item w%d#%d appears twice on the wire", l.name, g.writer, g.index)
				return
			}
			if int(g.writer) < 1 || int(g.writer) > len(items) || int(g.index) >= len(items[g.writer-1]) {
				dsim.Failf("exactly-once", "%s: item w%d#%d on the wire was never submitted", l.name, g.writer, g.index)
				return
			}
			it := items[g.writer-1][g.index]
			// (a replaced channel is a new *Channel: exclusions and targets drawn before the replacement
			// name the old one, targets drawn after it may name the new one)
			if it.never[l] && !isLossy[l] {
				dsim.Failf("isolation", "%s received w%d#%d (%s %s) which must not reach it", l.name, g.writer, g.index, opNames[it.sub.op], it.sub.special)
				return
			}
			if prev, ok := lastIdx[g.writer]; ok && int64(g.index) < prev {
				dsim.Failf("fifo-per-writer", "%s: items of writer %d appear out of submission order: #%d after #%d", l.name, g.writer, g.index, prev)
				return
			}
			lastIdx[g.writer] = int64(g.index)
			// header fields
			s := it.sub
			if s.op >= opFrameAll {
				if g.f.Sys != s.fsys || g.f.Comp != s.fcomp || g.f.Seq != s.fseq {
					dsim.Failf("forwarded-header", "%s: forwarded frame w%d#%d went out with sys=%d comp=%d seq=%d, it was submitted with sys=%d comp=%d seq=%d",
						l.name, g.writer, g.index, g.f.Sys, g.f.Comp, g.f.Seq, s.fsys, s.fcomp, s.fseq)
					return
				}
				if g.f.V2 != s.fv2 {
					dsim.Failf("forwarded-header", "%s: forwarded frame w%d#%d changed version", l.name, g.writer, g.index)
					return
				}
			} else {
				if g.f.Sys != e.cfg.sysID || g.f.Comp != e.cfg.effCompID() || g.f.V2 != (e.cfg.version == 2) {
					dsim.Failf("originated-header", "%s: originated message w%d#%d went out as %s, the node is v%d sys=%d comp=%d", l.name, g.writer, g.index, g.f, e.cfg.version, e.cfg.sysID, e.cfg.effCompID())
					return
				}
				if e.cfg.outKey != nil && (!g.f.Signed() || g.f.ComputeSignature(*e.cfg.outKey) != g.f.Signature) {
					dsim.Failf("originated-header", "%s: originated message w%d#%d is not validly signed with the outgoing key: %s", l.name, g.writer, g.index, g.f)
					return
				}
			}
			if uint8(g.op) != uint8(s.op) {
				dsim.Failf("exactly-once", "%s: item w%d#%d carries op tag %d, submitted with %d", l.name, g.writer, g.index, g.op, s.op)
				return
			}
		}
		for wi := range items {
			if isLossy[l] {
				break
			}
			for _, it := range items[wi] {
				if it.dests[l] && it.sub.accepted && seen[[2]uint32{uint32(wi + 1), it.sub.idx}] != 1 {
					dsim.Failf("exactly-once", "%s: item w%d#%d (%s %s) accepted at t=%v did not reach this open, healthy channel by quiescence (backlog was kept below the queue bound)",
						l.name, wi+1, it.sub.idx, opNames[it.sub.op], it.sub.special, it.sub.t0)
					return
				}
			}
		}
	}
	for _, l := range churn {
		got, ok := parse(l)
		if !ok {
			return
		}
		seen := map[[2]uint32]int{}
		for _, g := range got {
			key := [2]uint32{uint32(g.writer), g.index}
			seen[key]++
			if seen[key] > 1 {
				dsim.Failf("exactly-once", "%s (churning): item w%d#%d appears twice", l.name, g.writer, g.index)
				return
			}
			if int(g.writer) < 1 || int(g.writer) > len(items) || int(g.index) >= len(items[g.writer-1]) {
				dsim.Failf("exactly-once", "%s (churning): item w%d#%d was never submitted", l.name, g.writer, g.index)
				return
			}
			it := items[g.writer-1][g.index]
			s := it.sub
			isTo := s.op == opMsgTo || s.op == opFrameTo
			if isTo && s.special != "churn" {
				dsim.Failf("isolation", "%s (churning) received w%d#%d which was written to another channel (%s)", l.name, g.writer, g.index, s.special)
				return
			}
		}
	}
	for _, w := range e.writers {
		for _, s := range w.subs {
			if s.t1-s.t0 > time.Second {
				dsim.Failf("write-returns", "w%d#%d %s was blocked for %v (simulated) although every channel was healthy and below its queue bound: writes must not wait for the application to consume events or for other channels", w.id, s.idx, opNames[s.op], s.t1-s.t0)
				return
			}
			if !s.accepted {
				dsim.Failf("write-accepted", "w%d#%d %s %s returned %v", w.id, s.idx, opNames[s.op], s.special, s.err)
				return
			}
		}
	}
	_ = fmt.Sprint
}

func init() {
	register(&Prop{
		ID:       "C11",
		MaxSteps: 600000,
		Horizon:  40 * 365 * 24 * time.Hour,
		Body:     c11Body,
		Rule: "one evaluation = one simulated deployment: a real node with 1..3 endpoints and 1..6 stable channels (custom, TCP server, " +
			"UDP server, TCP client, serial) plus churning TCP peers, 1..4 writer tasks issuing 1..160 tagged Write{Message,Frame}" +
			"{All,To,Except} calls each (targets: stable, churning, closed, foreign (second real node) and nil channels), incoming traffic, " +
			"heartbeats, a drawn consumer pace, flow control (<= 40 outstanding per channel); distinct = distinct schedule hash + history " +
			"digest; non-trivial = at least two tasks interleaved and at least 5 writes were submitted",
		Nontrivial: func(r *dsim.Result) bool {
			n := 0
			for _, rec := range r.History {
				if rec.Kind == "submit" {
					n++
				}
			}
			return r.Interleave > 0 && n >= 5
		},
		ProbeUniverse: []string{"cov:churn-channel", "cov:write-to-closed", "cov:write-to-foreign", "cov:flow-control-wait"},
		Real:          []string{"gomavlib (Node, Channel, channelProvider, endpoints, heartbeat; instrumented with scheduling points only)", "pkg/frame", "pkg/message", "pkg/dialect", "pkg/streamwriter", "pkg/timednetconn"},
		Stub:          []string{"goroutine scheduler (dsim)", "clock (synctest)", "net sockets, listeners, dialer", "pion UDP listener", "serial port", "crypto/rand"},
	})
}
