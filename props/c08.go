package props

import (
	"bytes"
	"fmt"
	"io"
	"sync"
	"time"

	"github.com/bluenviron/gomavlib/v3"
	"github.com/bluenviron/gomavlib/v3/pkg/dialect"
	"github.com/bluenviron/gomavlib/v3/pkg/frame"

	"verif/dsim"
	"verif/hd"
	"verif/ref"
	"verif/world"
)

// C08 — routing transparency: a frame read and written unchanged stays valid.
//
// Two simulated systems: (a) relays made of the real frame.Reader and frame.Writer, 1..4 hops
// over simulated links; (b) chains of 1..3 real router nodes running the documented idiom
// WriteFrameExcept(evt.Channel, evt.Frame) (optionally edit + FixFrame), a source peer and a
// sink peer, over custom / TCP links under the scheduler. Frames: v1/v2, signed/unsigned,
// unknown ids, and dialect messages in canonical and NON-canonical encodings (zero-truncation
// not applied, extra trailing zeros, unknown trailing non-zero bytes beyond the extended size,
// bytes after a string's NUL).
//
// Not demanded: survival of the signature of a frame that a dialect-aware hop normalised.

// nonCanonical draws an encoding of vals; canon reports whether it is the canonical one.
func genEncoding(d *ref.MsgDef, vals ref.Values, v2 bool) (payload []byte, canon bool, how string) {
	full := d.EncodeFull(vals, v2)
	canonical := d.Encode(vals, v2)
	variant := dsim.Choose(7)
	if !v2 && variant != 4 {
		variant = 0
	}
	switch variant {
	case 1: // zero-truncation not applied
		payload, how = full, "untruncated"
	case 2: // extra zero bytes appended
		n := dsim.Choose(255 - len(full) + 1)
		payload, how = append(append([]byte(nil), full...), make([]byte, n)...), "extra-zeros"
	case 3: // unknown trailing non-zero bytes beyond the extended size
		n := dsim.Choose(255 - len(full) + 1)
		extra := make([]byte, n)
		for i := range extra {
			extra[i] = byte(1 + dsim.Choose(255))
		}
		payload, how = append(append([]byte(nil), full...), extra...), "unknown-trailing-bytes"
	case 4: // bytes after a string terminator
		payload, how = append([]byte(nil), full...), "bytes-after-nul"
		off := 0
		for _, i := range d.WireOrder() {
			f := d.Fields[i]
			if f.Ext && !v2 {
				continue
			}
			sz := ref.TypeSize(f.Type)
			if f.ArrLen > 0 {
				sz *= f.ArrLen
			}
			if f.Type == "char" {
				s := vals[i].Str
				for k := len(s) + 1; k < f.ArrLen; k++ {
					payload[off+k] = byte('A' + dsim.Choose(26))
				}
			}
			off += sz
		}
		if v2 {
			payload = ref.Truncate(payload)
		}
	case 5: // partially truncated
		payload, how = append([]byte(nil), canonical...), "partially-truncated"
		if len(full) > len(canonical) {
			payload = full[:len(canonical)+dsim.Choose(len(full)-len(canonical)+1)]
		}
	default:
		payload, how = canonical, "canonical"
	}
	if len(payload) > 255 {
		payload = payload[:255]
	}
	return payload, bytes.Equal(payload, canonical), how
}

type relayFrame struct {
	f     *ref.Frame
	def   *ref.MsgDef
	vals  ref.Values // what a dialect-aware hop must decode
	canon bool
	how   string
}

func genRelayFrame(signedOK bool) relayFrame {
	v2 := dsim.Choose(3) != 2
	var rf relayFrame
	if dsim.Choose(5) == 4 {
		// unknown id
		rf.f = genRawFrame(v2, false)
		for ref.DefByID(ref.HarnessDefs, rf.f.MsgID) != nil {
			rf.f.MsgID = (rf.f.MsgID + 3) & 0xFF
		}
		rf.canon, rf.how = true, "unknown-id"
	} else {
		var d *ref.MsgDef
		for {
			d = ref.HarnessDefs[dsim.Choose(len(ref.HarnessDefs))]
			if v2 || d.ID <= 255 {
				break
			}
		}
		vals := genValues(d)
		payload, canon, how := genEncoding(d, vals, v2)
		rf.f = &ref.Frame{V2: v2, Seq: genByte(), Sys: genByte(), Comp: genByte(), MsgID: d.ID, Payload: payload}
		if v2 {
			rf.f.Compat = genByte()
		}
		rf.def, rf.canon, rf.how = d, canon, how
		dec, err := d.Decode(payload, v2)
		if err != nil {
			panic(err)
		}
		rf.vals = dec
		rf.f.Checksum = rf.f.ComputeChecksum(d.CRCExtra())
	}
	if v2 && signedOK && dsim.Choose(3) == 0 {
		signValid(rf.f, rf.def, genKey(), genByte(), genUint(48))
	}
	return rf
}

// checkHop compares what came out of a hop with what went in.
func checkHop(oracle string, hop int, in relayFrame, out *ref.Frame, outBytes []byte, hopHasDialect bool, edited bool) bool {
	f := in.f
	if out.V2 != f.V2 || out.Seq != f.Seq || out.Sys != f.Sys || out.Comp != f.Comp || out.MsgID != f.MsgID ||
		(f.V2 && (out.Incompat != f.Incompat || out.Compat != f.Compat)) {
		dsim.Failf(oracle, "hop %d changed the header: in %s out %s (%s)", hop, f, out, in.how)
		return false
	}
	if (!hopHasDialect || in.def == nil || in.canon) && !edited {
		if !bytes.Equal(outBytes, f.Encode()) {
			dsim.Failf(oracle, "hop %d (dialect=%v, %s): forwarded bytes differ from the received bytes\n in  %s\n out %s", hop, hopHasDialect, in.how, hexs(f.Encode()), hexs(outBytes))
			return false
		}
		return true
	}
	// normalised by a dialect-aware hop: still a valid frame that decodes to the same message
	if out.ComputeChecksum(in.def.CRCExtra()) != out.Checksum {
		dsim.Failf(oracle, "hop %d (%s %s): the forwarded frame carries checksum %04x, but the payload actually sent (%s) needs %04x: the next hop will reject it",
			hop, in.def.Name, in.how, out.Checksum, hexs(out.Payload), out.ComputeChecksum(in.def.CRCExtra()))
		return false
	}
	got, err := in.def.Decode(out.Payload, out.V2)
	if err != nil {
		dsim.Failf(oracle, "hop %d: forwarded %s payload does not decode: %v", hop, in.def.Name, err)
		return false
	}
	want := in.vals
	if edited {
		want = append(ref.Values(nil), in.vals...)
		want[3] = ref.Value{Elems: []uint64{in.vals[3].Elems[0] ^ 0x5A5A}}
	}
	if !ref.EqualValues(got, want) {
		dsim.Failf(oracle, "hop %d (%s %s): forwarded frame decodes to %v, the frame that was received decodes to %v", hop, in.def.Name, in.how, got, want)
		return false
	}
	return true
}

func c08Relay() {
	nh := 1 + dsim.Choose(4)
	hopDialect := make([]bool, nh)
	any := false
	for i := range hopDialect {
		hopDialect[i] = dsim.Choose(2) == 0
		any = any || hopDialect[i]
	}
	nf := 1 + dsim.Choose(8)
	var frames []relayFrame
	var stream []byte
	for i := 0; i < nf; i++ {
		rf := genRelayFrame(true)
		frames = append(frames, rf)
		stream = append(stream, rf.f.Encode()...)
	}
	dsim.Record("relay", fmt.Sprintf("hops=%v %x", hopDialect, stream), nil, int64(nf), int64(nh))
	cur := frames
	curBytes := stream
	for h := 0; h < nh; h++ {
		var drw *dialect.ReadWriter
		if hopDialect[h] {
			drw = hd.NewRW()
		}
		cr := &chunkReader{data: curBytes, mode: dsim.Choose(3), err: io.EOF, errAt: len(curBytes)}
		rd := &frame.Reader{ByteReader: cr, DialectRW: drw}
		rd.Initialize() //nolint
		cw := &capWriter{failAt: -1}
		wr := &frame.Writer{ByteWriter: cw, DialectRW: drw}
		wr.Initialize() //nolint
		var next []relayFrame
		for i, in := range cur {
			fr, err := rd.Read()
			if err != nil {
				dsim.Failf("relay-valid", "hop %d rejected frame %d (%s %s) that the previous hop forwarded unchanged: %v; bytes %s", h, i, defName(in.def), in.how, err, hexs(in.f.Encode()))
				return
			}
			before := len(cw.all)
			if err := wr.Write(fr); err != nil {
				dsim.Failf("relay-valid", "hop %d could not write frame %d back: %v", h, i, err)
				return
			}
			outBytes := cw.all[before:]
			out, n, derr := ref.Decode(outBytes)
			if derr != nil || n != len(outBytes) {
				dsim.Failf("relay-valid", "hop %d wrote something that is not one frame: %s", h, hexs(outBytes))
				return
			}
			if !checkHop("relay-valid", h, in, out, outBytes, hopDialect[h], false) {
				return
			}
			// what the next hop receives
			nx := in
			nx.f = out
			nx.canon = nx.canon || hopDialect[h] && in.def != nil && bytes.Equal(out.Payload, in.def.Encode(in.vals, out.V2))
			next = append(next, nx)
		}
		cur = next
		curBytes = cw.all
		if hopDialect[h] {
			count("cov:dialect-hop")
		}
	}
	for _, f := range frames {
		if !f.canon {
			count("cov:non-canonical-frame")
			break
		}
	}
}

func defName(d *ref.MsgDef) string {
	if d == nil {
		return "unknown id"
	}
	return d.Name
}

// c08Chain: source peer -> 1..3 real router nodes -> sink peer.
func c08Chain() func(h []dsim.Rec) {
	nr := 1 + dsim.Choose(3)
	dsim.SetDate(time.Date(2028, 1, 1, 0, 0, 0, 0, time.UTC))
	w := world.New()
	w.ChunkMode = dsim.Choose(3)
	type router struct {
		e       *env
		dialect bool
		edit    bool
	}
	var routers []*router
	// links between consecutive routers: custom pipes or TCP
	srcNode, srcPeer := w.Pipe("src")
	prevOut := srcNode // node side of the link feeding router i
	var sinkPeer *world.Conn
	var outKey *[32]byte
	for i := 0; i < nr; i++ {
		cfg := &nodeCfg{version: 2, sysID: byte(100 + i), hbDisable: true}
		if dsim.Choose(2) == 1 {
			cfg.dialectKind = 1
		}
		r := &router{dialect: cfg.hasDialect()}
		if i == nr-1 && cfg.hasDialect() && dsim.Choose(2) == 0 {
			r.edit = true
			if dsim.Choose(2) == 0 {
				k := genKey()
				outKey = &k
				cfg.outKey = outKey
			}
		}
		e := &env{w: w, cfg: cfg, start: time.Now()}
		r.e = e
		in := &epCfg{kind: epCustom, pipe: prevOut}
		in.conf = gomavlib.EndpointCustom{ReadWriteCloser: prevOut}
		a, b := w.Pipe(fmt.Sprintf("hop%d", i))
		out := &epCfg{kind: epCustom, pipe: a}
		out.conf = gomavlib.EndpointCustom{ReadWriteCloser: a}
		cfg.eps = []*epCfg{in, out}
		prevOut = b
		sinkPeer = b
		routers = append(routers, r)
	}
	for _, r := range routers {
		if err := r.e.startNode(); err != nil {
			dsim.Failf("harness", "router: %v", err)
			return nil
		}
		c := &consumer{e: r.e, route: true, edit: r.edit}
		r.e.cons = c
		dsim.Go("router", c.run)
	}
	// the sink reads everything
	var sinkBytes []byte
	var sinkMu sync.Mutex
	dsim.Go("sink", func() {
		buf := make([]byte, 1024)
		for {
			n, err := sinkPeer.Read(buf)
			dsim.EnsureReleased("sink")
			sinkMu.Lock()
			sinkBytes = append(sinkBytes, buf[:n]...)
			sinkMu.Unlock()
			if err != nil {
				return
			}
		}
	})
	// the source starts when every router has both of its channels open
	for waited := 0; ; waited++ {
		ready := true
		for _, r := range routers {
			n := 0
			for _, o := range r.e.cons.snapshot() {
				if o.kind == evOpen {
					n++
				}
			}
			ready = ready && n >= 2
		}
		if ready {
			break
		}
		if waited > 1000 {
			dsim.Failf("harness", "router channels did not open")
			return nil
		}
		dsim.Sleep(10 * time.Millisecond)
	}
	dsim.Settle("routers-ready")
	// source
	nf := 1 + dsim.Choose(10)
	var frames []relayFrame
	for i := 0; i < nf; i++ {
		rf := genRelayFrame(true)
		if routers[len(routers)-1].edit {
			// edits are applied to VERIF_TAG frames; make most of them that
			if dsim.Choose(3) != 0 {
				vals := genValues(ref.DefTag)
				payload, canon, how := genEncoding(ref.DefTag, vals, true)
				rf = relayFrame{def: ref.DefTag, canon: canon, how: how}
				rf.f = &ref.Frame{V2: true, Seq: genByte(), Sys: genByte(), Comp: genByte(), MsgID: ref.DefTag.ID, Payload: payload}
				rf.vals, _ = ref.DefTag.Decode(payload, true)
				rf.f.Checksum = rf.f.ComputeChecksum(ref.DefTag.CRCExtra())
				if dsim.Choose(3) == 0 {
					signValid(rf.f, rf.def, genKey(), genByte(), genUint(48))
				}
			}
		}
		frames = append(frames, rf)
	}
	for i, rf := range frames {
		b := rf.f.Encode()
		dsim.Record("src-tx", fmt.Sprintf("#%d %s %x", i, rf.how, b), nil, int64(i))
		if _, err := srcPeer.Write(b); err != nil {
			dsim.Failf("harness", "source write: %v", err)
			return nil
		}
		dsim.EnsureReleased("src")
		if dsim.Choose(3) == 0 {
			dsim.Sleep(time.Duration(dsim.Choose(200)) * time.Millisecond)
		}
	}
	dsim.Sleep(3 * time.Second)
	dsim.Settle("quiescence")
	sinkMu.Lock()
	got := append([]byte(nil), sinkBytes...)
	sinkMu.Unlock()
	// the routers are not closed: closing one ends the custom transport of its neighbour, which
	// then re-opens the same dead transport in a zero-time loop (see DESIGN.md, C14 "not demanded")
	return func(h []dsim.Rec) {
		out, offs, rest, err := ref.ParseStream(got)
		if err != nil || len(rest) != 0 {
			dsim.Failf("chain-valid", "the sink received something that is not a clean frame sequence: %v (rest %d bytes): %s", err, len(rest), hexs(got))
			return
		}
		anyDialect := false
		for _, r := range routers {
			anyDialect = anyDialect || r.dialect
		}
		last := routers[len(routers)-1]
		// a dialect-aware router drops nothing that is valid: every frame arrives, in order
		if len(out) != len(frames) {
			// find which hop lost it: report the first router whose consumer saw a parse error
			for i, r := range routers {
				for _, o := range r.e.cons.events {
					if o.kind == evParseErr {
						dsim.Failf("chain-valid", "router %d (dialect=%v) rejected a frame that the previous hop forwarded unchanged: %v; %d frames sent, %d reached the sink",
							i, r.dialect, o.err, len(frames), len(out))
						return
					}
				}
			}
			dsim.Failf("chain-valid", "%d frames sent through %d routers, %d reached the sink", len(frames), len(routers), len(out))
			return
		}
		for i, in := range frames {
			end := len(got)
			if i+1 < len(offs) {
				end = offs[i+1]
			}
			edited := last.edit && in.def == ref.DefTag
			o := out[i]
			if edited && outKey != nil {
				// FixFrame signs with the outgoing key: the incompat flag is whatever the frame had;
				// a signature is only present when the frame was a signed one
				if o.Signed() && o.ComputeSignature(*outKey) != o.Signature {
					dsim.Failf("fixframe-valid", "frame %d: after edit + FixFrame the signature does not verify under the router's outgoing key: %s", i, o)
					return
				}
			}
			cmp := in
			if edited {
				// header equality and message equality, checksum must be valid for the edited payload
				if !checkHop("fixframe-valid", len(routers)-1, cmp, o, got[offs[i]:end], true, true) {
					return
				}
				count("cov:edit-fixframe")
				continue
			}
			if !checkHop("chain-valid", len(routers)-1, cmp, o, got[offs[i]:end], anyDialect, false) {
				return
			}
		}
	}
}

func c08Body() func(h []dsim.Rec) {
	if dsim.Choose(4) == 3 {
		return c08Chain()
	}
	c08Relay()
	return nil
}

func init() {
	register(&Prop{
		ID:       "C08",
		MaxSteps: 400000,
		Horizon:  40 * 365 * 24 * time.Hour,
		Body:     c08Body,
		Rule: "one evaluation = either a relay of 1..4 hops (real frame.Reader -> real frame.Writer, each hop with or without the dialect, " +
			"drawn segmentation) carrying 1..8 generated frames, or a chain of 1..3 real router nodes (WriteFrameExcept idiom, last one " +
			"optionally editing + FixFrame with an outgoing key) between a source and a sink peer carrying 1..10 frames; frames are v1/v2, " +
			"signed/unsigned, unknown ids, and dialect messages in canonical and 5 non-canonical encodings; distinct = distinct history " +
			"digest; non-trivial = at least one hop had the dialect",
		Nontrivial: func(r *dsim.Result) bool {
			if r.Probes["cov:dialect-hop"] > 0 {
				return true
			}
			for _, rec := range r.History {
				if rec.Kind == "cfg" && len(rec.S) > 0 && !bytes.Contains([]byte(rec.S), []byte("dialect=1")) {
					return true
				}
			}
			return false
		},
		ProbeUniverse: []string{"cov:dialect-hop", "cov:non-canonical-frame", "cov:edit-fixframe"},
		Real:          []string{"pkg/frame (Reader, Writer)", "gomavlib (Node as router, FixFrame; instrumented)", "pkg/dialect", "pkg/message"},
		Stub:          []string{"byte links", "goroutine scheduler (dsim)", "clock (synctest)", "custom transports (pipes)", "reference codec as oracle"},
	})
}
