package props

import (
	"errors"
	"net"
	"time"

	"github.com/bluenviron/gomavlib/v3"
	"github.com/bluenviron/gomavlib/v3/pkg/message"

	"verif/dsim"
	"verif/hd"
	"verif/ref"
	"verif/world"
)

// C13 — a stalled or failing channel neither stalls the node nor dies silently.
//
// Simulated system: a real node with 2..5 channels, some of them sick: the transport Write
// of a sick channel blocks from its k-th call on (forever, until a drawn instant, or until the
// write deadline of a socket) or fails (once or permanently), k drawn in a window; writers
// also inject items that cannot be encoded for the link (raw message with an id outside the
// dialect; id > 255 on a v1 link) at drawn positions. Healthy channels are flow-controlled so
// that nothing may be dropped there; channels on which a write failed are flow-controlled too,
// by write ATTEMPTS on their transport: "closed and reported, or still handing every later
// item to the transport".
//
// Not demanded: which of the two a failing channel does; what happens to the item whose write
// failed; delivery on a channel while it is stalled.

const (
	sickNone = iota
	sickBlockForever
	sickBlockThenUnblock
	sickFailOnce
	sickFailForever
)

var sickNames = [...]string{"healthy", "block-forever", "block-then-unblock", "fail-once", "fail-forever"}

var errInjectedWrite = errors.New("injected write error")

func c13Body() func(h []dsim.Rec) {
	cfg := genNodeCfg()
	cfg.hbPeriod = time.Duration(300+dsim.Choose(3000)) * time.Millisecond
	cfg.hbDisable = dsim.Choose(3) == 2
	cfg.writeTO = dsim.Pick(500*time.Millisecond, 2*time.Second, time.Duration(0))
	e := newEnv(cfg)
	e.w.ChunkMode = dsim.Choose(3)
	e.w.SendBuf = dsim.Pick(1<<16, 4096)
	dsim.SetDate(time.Date(2027, 7, 1, 0, 0, 0, 0, time.UTC))
	e.start = time.Now()
	unencodable := dsim.Choose(5) >= 3

	kinds := []int{epCustom, epTCPServer, epTCPClient, epSerial, epUDPServer, epUDPClient, epBroadcast}
	neps := 2 + dsim.Choose(depth(2, 4))
	for i := 0; i < neps; i++ {
		e.addEndpoint(kinds[dsim.Choose(len(kinds))])
	}
	fl := &flow{e: e, reserved: map[*link]int{}, received: map[*link]int{}, parsed: map[*link]int{}}
	var stable []*link
	addStable := func(l *link) {
		e.mu.Lock()
		stable = append(stable, l)
		e.mu.Unlock()
	}
	expect := 0
	needHello := false
	for _, ep := range e.cfg.eps {
		ep := ep
		switch ep.kind {
		case epUDPClient, epBroadcast:
			// the peer learns the node's socket from the first datagram the node sends
			first := true
			if _, err := e.packetPeer(ep, func(l *link) {
				if first {
					first = false
					addStable(l)
				}
			}); err != nil {
				dsim.Failf("harness", "peer packet listen: %v", err)
				return nil
			}
			expect++
			needHello = true
		case epCustom:
			addStable(e.customLink(ep))
			expect++
		case epTCPClient:
			first := true
			e.tcpServerPeer(ep, func(l *link) { //nolint
				if first {
					first = false
					addStable(l)
				}
			})
			expect++
		case epSerial:
			e.serialPeer(ep, func(l *link) {
				if l.ordinal == 1 {
					addStable(l)
				}
			})
			expect++
		}
	}
	cons := &consumer{e: e, pace: dsim.Choose(3)}
	e.cons = cons
	closedLinks := map[*link]bool{}
	chOf := map[*link]*gomavlib.Channel{}
	linkOf := map[*gomavlib.Channel]*link{}
	cons.onEvent = func(o *obs) {
		if o.kind == evClose {
			e.mu.Lock()
			if l := linkOf[o.ch]; l != nil {
				closedLinks[l] = true
			}
			e.mu.Unlock()
		}
	}
	if err := e.startNode(); err != nil {
		dsim.Failf("harness", "node did not initialise: %v", err)
		return nil
	}
	dsim.Go("consumer", cons.run)
	for _, ep := range e.cfg.eps {
		if ep.kind != epTCPServer && ep.kind != epUDPServer {
			continue
		}
		np := 1 + dsim.Choose(2)
		for i := 0; i < np; i++ {
			expect++
			var l *link
			var err error
			if ep.kind == epTCPServer {
				l, err = e.dialTCPPeer(ep)
			} else {
				l, err = e.dialUDPPeer(ep)
				if err == nil {
					err = l.send(sendValid, false)
				}
			}
			if err != nil {
				dsim.Failf("harness", "peer could not connect: %v", err)
				return nil
			}
			addStable(l)
		}
	}
	if needHello {
		// with heartbeats off nothing leaves the node by itself: the application says hello (a
		// forwarded frame that no oracle counts) until every datagram peer has heard the node
		dsim.Go("hello", func() {
			for i := 0; i < 100; i++ {
				e.mu.Lock()
				ns := len(stable)
				e.mu.Unlock()
				if ns >= expect {
					return
				}
				e.node.WriteFrameAll(helloFrame(e.cfg.version == 2, uint32(i))) //nolint
				dsim.Sleep(200 * time.Millisecond)
			}
		})
	}
	deadline := e.now() + 30*time.Second
	for {
		n := 0
		for _, o := range cons.snapshot() {
			if o.kind == evOpen {
				n++
			}
		}
		e.mu.Lock()
		ns := len(stable)
		e.mu.Unlock()
		if ns == expect && n >= expect {
			break
		}
		if e.now() > deadline {
			dsim.Failf("harness", "channels did not open: %d links, %d open events, expected %d", ns, n, expect)
			return nil
		}
		dsim.Sleep(20 * time.Millisecond)
	}
	dsim.Sleep(300 * time.Millisecond)
	dsim.Settle("setup")
	mapping := e.chanLinks(cons.snapshot())
	e.mu.Lock()
	for ch, l := range mapping {
		chOf[l] = ch
		linkOf[ch] = l
	}
	e.mu.Unlock()
	var stableCh []*gomavlib.Channel
	for _, l := range stable {
		if chOf[l] == nil {
			dsim.Failf("harness", "link %s has no channel", l.name)
			return nil
		}
		stableCh = append(stableCh, chOf[l])
	}

	// choose the sick channels, keep at least one healthy (a datagram socket never blocks: its
	// writes can only fail)
	sick := map[*link]int{}
	streamLinks := append([]*link(nil), stable...)
	nsick := 0
	if len(stable) > 1 {
		nsick = 1 + dsim.Choose(len(streamLinks))
		if nsick >= len(stable) {
			nsick = len(stable) - 1
		}
	}
	unblockAt := map[*link]time.Duration{}
	dgFault := map[*link]*dgramFault{}
	for i := 0; i < nsick; i++ {
		l := streamLinks[(i+dsim.Choose(len(streamLinks)))%len(streamLinks)]
		if sick[l] != sickNone {
			continue
		}
		kind := 1 + dsim.Choose(4)
		if l.conn == nil {
			kind = sickFailOnce + dsim.Choose(2)
			werr := error(errInjectedWrite)
			if dsim.Choose(2) == 1 {
				werr = &net.OpError{Op: "write", Net: "udp", Err: errInjectedWrite}
			}
			sick[l] = kind
			dgFault[l] = &dgramFault{at: 1 + dsim.Choose(30), err: werr, once: kind == sickFailOnce}
			dsim.Record("sick", l.name+" "+sickNames[kind], nil, int64(l.id), int64(kind), int64(dgFault[l].at))
			count("fault:plan-" + sickNames[kind])
			count("fault:plan-datagram-write-error")
			continue
		}
		sick[l] = kind
		// the shape a failing socket gives its error: a bare error or a net.Error that is not a timeout
		werr := error(errInjectedWrite)
		if dsim.Choose(2) == 1 {
			werr = &net.OpError{Op: "write", Net: "tcp", Err: errInjectedWrite}
		}
		node := l.conn.Peer
		k := node.WriteCount() + 1 + dsim.Choose(30)
		f := world.Faults{}
		switch kind {
		case sickBlockForever, sickBlockThenUnblock:
			f.WriteBlockAt = k
			if kind == sickBlockThenUnblock {
				unblockAt[l] = time.Duration(500+dsim.Choose(8000)) * time.Millisecond
			}
		case sickFailOnce:
			f.WriteErrAt, f.WriteErr, f.WriteErrOnce = k, werr, true
		case sickFailForever:
			f.WriteErrAt, f.WriteErr = k, werr
		}
		node.SetFaults(f)
		dsim.Record("sick", l.name+" "+sickNames[kind], nil, int64(l.id), int64(kind), int64(k))
		count("fault:plan-" + sickNames[kind])
	}
	// a stalled transport without write deadline never fails: it is excluded from flow control
	stalls := func(l *link) bool {
		k := sick[l]
		return (k == sickBlockForever || k == sickBlockThenUnblock) && (l.ep.kind == epCustom || l.ep.kind == epSerial)
	}
	// flow control: write attempts of tagged items on the node side (stream) / frames received (datagram)
	for _, l := range stable {
		l := l
		if l.conn != nil {
			l.conn.Peer.OnWrite = func(p []byte, k int) {
				if f, n, err := ref.Decode(p); err == nil && n == len(p) {
					if wr, _, _, ok := tagOf(f); ok && wr < 100 {
						e.mu.Lock()
						fl.received[l]++
						e.mu.Unlock()
					}
				}
			}
		} else if dgFault[l] == nil {
			e.mu.Lock()
			l.onData = func() { fl.noteRx(l) }
			e.mu.Unlock()
		}
	}
	// node-side datagram sockets: count the write attempts of tagged items on sick links and fail
	// the planned ones
	e.w.UDPWriteHook = func(local, remote int, p []byte) error {
		var l *link
		for _, c := range stable {
			if !c.datagram {
				continue
			}
			switch c.ep.kind {
			case epUDPServer:
				if c.uconn != nil && c.uconn.Port() == remote && c.ep.port == local {
					l = c
				}
			case epUDPClient:
				if c.nodePort == local {
					l = c
				}
			case epBroadcast:
				if c.ep.port == local {
					l = c
				}
			}
		}
		if l == nil || dgFault[l] == nil {
			return nil
		}
		df := dgFault[l]
		e.mu.Lock()
		df.n++
		k := df.n
		if f, n, err := ref.Decode(p); err == nil && n == len(p) {
			if wr, _, _, ok := tagOf(f); ok && wr < 100 {
				fl.received[l]++
			}
		}
		fail := k == df.at || (k > df.at && !df.once)
		if fail && df.faultAt == 0 {
			df.faultAt = e.now() + 1
		}
		e.mu.Unlock()
		if fail {
			return df.err
		}
		return nil
	}

	d := &driverSet{e: e}
	for _, l := range stable {
		if at, ok := unblockAt[l]; ok {
			l, at := l, at
			dsim.Go("unblocker", func() {
				dsim.Sleep(at)
				l.conn.Peer.Unblock()
				dsim.Record("unblock", l.name, nil, int64(l.id))
				e.mu.Lock()
				l.unblockedAt = e.now()
				e.mu.Unlock()
			})
		}
	}
	// inbound traffic on every link, sick ones included: events must keep flowing
	for _, l := range stable {
		l := l
		n := dsim.Choose(8)
		if n > 0 {
			d.spawn("peer-drv", func() { e.peerScript(l, n, false) })
		}
	}
	nw := 1 + dsim.Choose(3)
	items := make([][]fanItem, nw)
	silent := false
	slow := map[*link]bool{}
	for wi := 0; wi < nw; wi++ {
		wi := wi
		w := &writer{e: e, id: wi + 1}
		e.writers = append(e.writers, w)
		nops := 10 + dsim.Choose(120)
		d.spawn("writer", func() {
			for j := 0; j < nops; j++ {
				dsim.EnsureReleased("writer")
				if unencodable && dsim.Choose(12) == 0 {
					// an item that cannot be encoded for the link
					count("fault:unencodable-item")
					dsim.Record("submit-bad", "", nil, int64(wi+1))
					if cfg.version == 1 && dsim.Choose(2) == 0 {
						e.node.WriteMessageAll(&hd.MessageVerifHi{X: 1}) //nolint: id 70000 on a v1 link
					} else {
						e.node.WriteMessageAll(&message.MessageRaw{ID: 9999, Payload: []byte{1, 2, 3}}) //nolint: id outside the dialect
					}
					continue
				}
				op := opMsgAll
				switch dsim.Choose(8) {
				case 5:
					op = opMsgTo
				case 6:
					op = opMsgExcept
				case 7:
					op = opFrameAll
				}
				raw := dsim.Choose(3) == 0
				var target *gomavlib.Channel
				var tl *link
				if op == opMsgTo || op == opMsgExcept {
					k := dsim.Choose(len(stable))
					target, tl = stableCh[k], stable[k]
				}
				it := fanItem{dests: map[*link]bool{}, never: map[*link]bool{}}
				for _, l := range stable {
					switch op {
					case opMsgTo:
						if l == tl {
							it.dests[l] = true
						} else {
							it.never[l] = true
						}
					case opMsgExcept:
						if l == tl {
							it.never[l] = true
						} else {
							it.dests[l] = true
						}
					default:
						it.dests[l] = true
					}
				}
				waitStart := e.now()
				window := 20 * time.Second
				if wto := cfg.writeTO; wto == 0 {
					window = 2*10*time.Second + 5*time.Second
				} else if 2*wto+5*time.Second > window {
					window = 2*wto + 5*time.Second
				}
				e.mu.Lock()
				before := map[*link]int{}
				for _, l := range stable {
					before[l] = fl.received[l]
				}
				e.mu.Unlock()
				for {
					var dl []*link
					e.mu.Lock()
					for _, l := range stable {
						if it.dests[l] && !closedLinks[l] && !stalls(l) && !slow[l] {
							dl = append(dl, l)
						}
					}
					e.mu.Unlock()
					if fl.reserve(dl, 40) {
						break
					}
					count("cov:flow-control-wait")
					if e.now()-waitStart > window {
						// which link is not making progress?
						e.mu.Lock()
						var stuck *link
						for _, l := range dl {
							if fl.reserved[l]-fl.received[l] >= 40 {
								stuck = l
							}
						}
						isClosed := stuck != nil && closedLinks[stuck]
						if stuck != nil && !isClosed && fl.received[stuck] > before[stuck] {
							// still handing items to its transport, only slowly (every attempt runs
							// into the write deadline): stalled, not dead; the queue bound applies
							slow[stuck] = true
							e.mu.Unlock()
							count("cov:slow-channel")
							waitStart = e.now()
							continue
						}
						e.mu.Unlock()
						if stuck != nil && !isClosed {
							_, faultAt := stuck.conn0().Times()
							what := "a healthy channel"
							oracle := "isolation-of-healthy"
							if sick[stuck] != sickNone || faultAt != 0 || unencodable {
								what = "a channel on which a write failed or an item could not be encoded (" + sickNames[sick[stuck]] + ")"
								oracle = "closed-or-delivering"
							}
							e.mu.Lock()
							already := silent
							silent = true
							e.mu.Unlock()
							if !already {
								dsim.Failf(oracle, "%s: %s has handed none of the items written to it to its transport for the last %v (simulated), and no close event was delivered: it is open and silent (write fault at t=%v)",
									stuck.name, what, window, faultAt)
							}
						}
						return
					}
					dsim.Sleep(5 * time.Millisecond)
				}
				w.writeOne(op, target, "", raw)
				it.sub = &w.subs[len(w.subs)-1]
				items[wi] = append(items[wi], it)
				dsim.EnsureReleased("writer")
				if dsim.Choose(4) == 0 {
					dsim.Sleep(time.Duration(dsim.Choose(300)) * time.Millisecond)
				}
			}
		})
	}
	if !d.wait(900 * time.Second) {
		dsim.Failf("isolation-of-healthy", "writers or peers did not finish within 900 simulated seconds: a Write* call is blocked")
	}
	// end of the stalls that were planned to end
	dsim.Sleep(10 * time.Second)
	e.mu.Lock()
	cons.pace = 0
	e.mu.Unlock()
	dsim.Sleep(3 * time.Second)
	dsim.Settle("quiescence")
	snapshot := cons.snapshot()
	e.node.Close()
	return func(h []dsim.Rec) {
		var healthy, lossy []*link
		for _, l := range stable {
			_, faultAt := l.conn0().Times()
			if sick[l] == sickNone && !closedLinks[l] && faultAt == 0 && !slow[l] {
				healthy = append(healthy, l)
			} else {
				lossy = append(lossy, l)
			}
		}
		e.checkFanoutEx(healthy, lossy, nil, items)
		// events keep flowing, also from the sick channels
		e.checkEventStream(snapshot, streamOpts{consumerAlive: true, lossless: true})
		// bounded backlog: what comes out of a stall
		for _, l := range stable {
			if sick[l] != sickBlockThenUnblock || !stalls(l) {
				continue
			}
			blockedAt, _ := l.conn.Peer.Times()
			if blockedAt == 0 || l.unblockedAt == 0 {
				continue
			}
			frames, _, _, _ := ref.ParseStream(l.wire())
			n := 0
			for _, f := range frames {
				wr, _, idx, ok := tagOf(f)
				if !ok || wr >= 100 || int(wr) < 1 || int(wr) > len(items) || int(idx) >= len(items[wr-1]) {
					continue
				}
				s := items[wr-1][idx].sub
				if s.t0 > blockedAt+time.Millisecond && s.t1 < l.unblockedAt {
					n++
				}
			}
			count("cov:stall-ended")
			if bound := 64 + 2 + nw; n > bound {
				dsim.Failf("bounded-backlog", "%s was stalled from t=%v to t=%v; %d items whose Write* call began and returned during the stall came out afterwards, the bounded queue allows at most %d",
					l.name, blockedAt, l.unblockedAt, n, bound)
				return
			}
		}
	}
}

// dgramFault is the write-fault plan of a datagram link (k-th write of the node-side socket).
type dgramFault struct {
	at      int
	err     error
	once    bool
	n       int
	faultAt time.Duration
}

// conn0 returns the node-side stream connection of a link (a zero Conn for datagram links).
func (l *link) conn0() *world.Conn {
	if l.conn != nil {
		return l.conn.Peer
	}
	return &world.Conn{}
}

func init() {
	register(&Prop{
		ID:         "C13",
		MaxSteps:   900000,
		Horizon:    40 * 365 * 24 * time.Hour,
		Body:       c13Body,
		HangOracle: "isolation-of-healthy",
		Rule: "one evaluation = one simulated deployment: a real node with 2..5 channels of which a drawn subset is sick (transport Write " +
			"blocking forever / until a drawn instant / until the socket's write deadline, or failing once / permanently, from the k-th " +
			"call on, k drawn in 1..30), 1..3 writers issuing 10..130 tagged writes each, unencodable items (raw id outside the dialect, " +
			"id 70000 on a v1 link) at drawn positions in 2/5 of the runs, inbound traffic on every channel; distinct = distinct schedule " +
			"hash + history digest; non-trivial = at least two tasks interleaved and a write fault or an unencodable item actually fired",
		Nontrivial: func(r *dsim.Result) bool {
			return r.Interleave > 0 && (r.Probes["fault:write-block"]+r.Probes["fault:write-error"]+r.Probes["fault:write-timeout"]+r.Probes["fault:unencodable-item"] > 0)
		},
		ProbeUniverse: []string{"fault:write-block", "fault:write-error", "fault:write-timeout", "fault:unencodable-item", "cov:stall-ended", "cov:flow-control-wait",
			"fault:plan-block-forever", "fault:plan-block-then-unblock", "fault:plan-fail-once", "fault:plan-fail-forever"},
		Real: []string{"gomavlib (Node, Channel, channelProvider, endpoints, heartbeat; instrumented with scheduling points only)", "pkg/frame", "pkg/message", "pkg/dialect", "pkg/streamwriter", "pkg/timednetconn"},
		Stub: []string{"goroutine scheduler (dsim)", "clock (synctest)", "net sockets, listeners, dialer", "pion UDP listener", "serial port", "crypto/rand"},
	})
}
