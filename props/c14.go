package props

import (
	"errors"
	"fmt"
	"io"
	"net"
	"strings"
	"time"

	"github.com/bluenviron/gomavlib/v3"

	"verif/dsim"
	"verif/hd"
	"verif/world"
)

// C14 — channel lifecycle under faults: errors reported, reconnects, idle expiry.
//
// Simulated system: a real node with one endpoint under test (TCP client, UDP client, serial,
// TCP server, UDP server) and its peers. The fault plan is a sequence of sessions: before a
// session the connection attempt is refused / hangs / the serial open fails (0..2 times in a
// row), a session carries some traffic and ends by EOF, RST, an injected read error at the
// k-th transport read, or silence (idle expiry); the last session stays up.
//
// Oracle constants: "the reconnect delay" is not mirrored from the code: a retry must come no
// earlier than 1 s after the previous failure / the delivery of the previous close event, and a
// fresh channel must exist 12 s after the last fault (plus the dial timeout).
//
// Not demanded: behaviour after Accept errors; re-opening of custom endpoints (a dead custom
// transport is handed out again at once, an open/close storm at zero simulated time; custom and
// broadcast endpoints are therefore not given read faults here).

var errInjectedRead = errors.New("injected read error")

const (
	endStay = iota
	endEOF
	endReset
	endReadErr
	endIdle
)

var endNames = [...]string{"stay", "eof", "reset", "read-error", "idle"}

type session struct {
	fails  int // failed connection attempts before this session
	hang   []bool
	frames int
	ending int
	readK  int
	link   *link
	chOpen time.Duration
	noRead bool // the peer does not read during this session
	// the silence of an idle ending begins in the middle of a frame (stream transports)
	midFrame bool
	partialT time.Duration
}

func isTimeout(err error) bool {
	var ne net.Error
	return errors.As(err, &ne) && ne.Timeout()
}

func c14Body() func(h []dsim.Rec) {
	cfg := genNodeCfg()
	cfg.hbPeriod = time.Duration(200+dsim.Choose(1500)) * time.Millisecond
	cfg.idleTO = time.Duration(1000+dsim.Choose(4000)) * time.Millisecond
	cfg.readTO = dsim.Pick(time.Duration(0), 700*time.Millisecond, 3*time.Second)
	cfg.writeTO = dsim.Pick(time.Duration(0), 900*time.Millisecond, 4*time.Second)
	if cfg.hbPeriod > cfg.idleTO/3 {
		cfg.hbPeriod = cfg.idleTO / 3 // a UDP client's peer learns about a new socket from its first heartbeat
	}
	stalls := dsim.Choose(4) == 3
	if stalls {
		dsim.EnableStalls(1 + dsim.Choose(15))
	}
	e := newEnv(cfg)
	e.w.ChunkMode = dsim.Choose(3)
	dsim.SetDate(time.Date(2029, 2, 1, 0, 0, 0, 0, time.UTC))
	e.start = time.Now()
	kind := []int{epTCPClient, epUDPClient, epSerial, epTCPServer, epUDPServer, epBroadcast, epCustom}[dsim.Choose(7)]
	if kind == epBroadcast {
		return c14Broadcast(cfg)
	}
	if kind == epCustom {
		return c14Custom(cfg)
	}
	ep := e.addEndpoint(kind)
	clientType := kind == epTCPClient || kind == epUDPClient || kind == epSerial
	idle := cfg.idleTO
	dialTO := cfg.readTO
	if dialTO == 0 {
		dialTO = 10 * time.Second
	}

	// outgoing traffic against peers that do not drain it: the channel's writer ends up blocked
	// in the transport when the read side fails
	traffic := kind != epUDPServer && kind != epUDPClient && dsim.Choose(2) == 1
	if traffic {
		e.w.SendBuf = 300
		e.w.ChunkMode = 0
		count("cov:outgoing-traffic")
	}
	// ---- plan
	ns := 2 + dsim.Choose(depth(4, 7))
	var sessions []*session
	for i := 0; i < ns; i++ {
		s := &session{frames: dsim.Choose(6), readK: 1 + dsim.Choose(5)}
		s.noRead = traffic && dsim.Choose(2) == 1
		if clientType {
			s.fails = dsim.Choose(3)
			if dsim.Choose(4) == 3 {
				s.fails += 2 + dsim.Choose(3)
			}
			for k := 0; k < s.fails; k++ {
				s.hang = append(s.hang, kind == epTCPClient && dsim.Choose(2) == 1)
			}
		}
		var ends []int
		switch kind {
		case epTCPClient, epTCPServer:
			ends = []int{endEOF, endReset, endReadErr, endIdle}
		case epUDPClient:
			ends = []int{endReadErr, endIdle}
		case epSerial:
			ends = []int{endEOF, endReadErr}
		case epUDPServer:
			ends = []int{endIdle}
		}
		s.ending = ends[dsim.Choose(len(ends))]
		if i == ns-1 {
			s.ending = endStay
		}
		if s.ending == endIdle && (kind == epTCPClient || kind == epTCPServer) && dsim.Choose(3) == 0 {
			s.midFrame = true
		}
		sessions = append(sessions, s)
	}
	plan := ""
	for _, s := range sessions {
		en := endNames[s.ending]
		if s.midFrame {
			en += "-mid-frame"
		}
		plan += fmt.Sprintf("[fail=%d frames=%d end=%s]", s.fails, s.frames, en)
	}
	dsim.Record("plan", epNames[kind]+" "+plan, nil, int64(ns))

	// ---- connection faults
	var verdicts []world.DialVerdict
	attempt := 0
	for _, s := range sessions {
		for k := 0; k < s.fails; k++ {
			if s.hang[k] {
				verdicts = append(verdicts, world.DialHang)
			} else {
				verdicts = append(verdicts, world.DialRefuse)
			}
		}
		verdicts = append(verdicts, world.DialOK)
	}
	e.w.DialHook = func(network, addr string, n int) world.DialVerdict {
		if n-1 < len(verdicts) {
			return verdicts[n-1]
		}
		return world.DialOK
	}
	if kind == epSerial {
		at := 2 // open #1 is the existence test of Initialize
		for _, s := range sessions {
			for k := 0; k < s.fails; k++ {
				ep.serial.FailOpenAt[at] = true
				at++
			}
			at++
		}
	}
	_ = attempt
	// node-side read faults are installed when the connection of a session comes up
	connIdx := 0
	e.w.OnNewConn = func(c *world.Conn) {
		if kind == epSerial && c.Kind == "serial" {
			if e.w.NodeConnsFor(ep.device)[0].ID == c.ID {
				return // existence test
			}
		}
		if connIdx < len(sessions) && sessions[connIdx].ending == endReadErr {
			c.SetFaults(world.Faults{ReadErrAt: c.ReadCount() + sessions[connIdx].readK + 1, ReadErr: errInjectedRead})
			count("fault:plan-read-error")
		}
		connIdx++
	}
	udpIdx := 0
	udpSession := map[int]int{} // local port of the node's k-th socket -> k
	e.w.OnNewUDP = func(c *world.UDPConn) {
		e.mu.Lock()
		udpSession[c.Port()] = udpIdx
		e.mu.Unlock()
		if udpIdx < len(sessions) && sessions[udpIdx].ending == endReadErr {
			c.FailReadAt(sessions[udpIdx].readK+1, errInjectedRead)
			count("fault:plan-read-error")
		}
		udpIdx++
	}

	cons := &consumer{e: e, pace: dsim.Choose(2)}
	fastConsumer := cons.pace == 0
	e.cons = cons
	d := &driverSet{e: e}
	served := 0
	runSession := func(l *link) {
		e.mu.Lock()
		k := served
		if kind == epUDPClient {
			// the plan is laid over the node's sockets: a socket that came and went without the
			// peer ever seeing a datagram from it (possible under stall injection: it expires
			// before the first heartbeat gets out) still used up its place in the plan
			if i, ok := udpSession[l.nodePort]; ok && i >= k {
				k = i
			}
		}
		served = k + 1
		e.mu.Unlock()
		if k >= len(sessions) {
			return
		}
		s := sessions[k]
		s.link = l
		if s.noRead && s.ending != endStay {
			l.pauseRx(true)
			count("fault:peer-not-reading")
		}
		d.spawn("session", func() {
			if s.ending == endIdle && dsim.Choose(2) == 0 && s.frames > 0 {
				// keep-alive first: a peer that sends every 0.9 idle periods stays open
				for i := 0; i < 20; i++ {
					if l.send(sendValid, false) != nil {
						return
					}
					dsim.Sleep(idle * 9 / 10)
				}
				l.keptAlive = true
				count("cov:keep-alive-20-periods")
			} else {
				e.peerScript(l, s.frames, false)
			}
			dsim.EnsureReleased("session-end")
			l.lastSend = e.now()
			if n := len(l.sent); n > 0 {
				l.lastSend = l.sent[n-1].t
			}
			switch s.ending {
			case endEOF:
				dsim.Sleep(time.Duration(dsim.Choose(300)) * time.Millisecond)
				l.closeByPeer(false)
			case endReset:
				dsim.Sleep(time.Duration(dsim.Choose(300)) * time.Millisecond)
				l.closeByPeer(true)
			case endReadErr:
				// keep the node reading until it hits the fault (several frames may be
				// consumed by one transport read)
				for i := 0; i < 400; i++ {
					if l.send(sendValid, false) != nil || l.rxEnded() {
						break
					}
					if l.datagram && !e.w.UDPPortOpen(l.nodePort) {
						break // the node has closed the socket of this session
					}
					dsim.Sleep(50 * time.Millisecond)
				}
			case endStay:
				// the last session stays healthy: it keeps sending so that it is never idle
				for {
					e.mu.Lock()
					stop := e.stopAll
					e.mu.Unlock()
					if stop || l.send(sendValid, false) != nil {
						break
					}
					dsim.Sleep(idle / 3)
				}
			case endIdle:
				count("fault:plan-silence")
				// stay silent; the node expires the channel
				if s.midFrame {
					// ... the silence begins after the first bytes of a frame
					if l.sendPartial() == nil {
						dsim.EnsureReleased("session-partial")
						s.partialT = e.now()
						l.lastSend = s.partialT
						count("fault:plan-silence-mid-frame")
					}
				}
			}
		})
	}
	switch kind {
	case epTCPClient:
		e.tcpServerPeer(ep, runSession) //nolint
	case epSerial:
		e.serialPeer(ep, func(l *link) {
			if l.ordinal == 0 {
				return
			}
			runSession(l)
		})
	case epUDPClient:
		e.packetPeer(ep, runSession) //nolint
	}
	if err := e.startNode(); err != nil {
		dsim.Failf("harness", "node did not initialise: %v", err)
		return nil
	}
	dsim.Go("consumer", cons.run)
	if traffic && cfg.hasDialect() {
		dsim.Go("traffic", func() {
			for {
				e.mu.Lock()
				stop := e.stopAll
				e.mu.Unlock()
				if stop {
					return
				}
				e.node.WriteMessageAll(&hd.MessageVerifBig{Data: [255]uint8{0: 7, 254: 7}}) //nolint
				dsim.Sleep(250 * time.Millisecond)
			}
		})
	}
	if !clientType {
		// server endpoints: peers arrive one after the other, later ones after earlier ones failed
		d.spawn("arrivals", func() {
			for range sessions {
				var l *link
				var err error
				if kind == epTCPServer {
					l, err = e.dialTCPPeer(ep)
				} else {
					l, err = e.dialUDPPeer(ep)
					if err == nil {
						err = l.send(sendValid, false)
					}
				}
				if err != nil {
					dsim.Failf("server-keeps-accepting", "a new peer could not connect to the %s endpoint: %v", epNames[kind], err)
					return
				}
				runSession(l)
				dsim.EnsureReleased("arrivals")
				dsim.Sleep(time.Duration(200+dsim.Choose(3000)) * time.Millisecond)
			}
		})
	}
	// ---- let the plan play out: wait until the last session is up, then until the faults are over
	budget := time.Duration(len(verdicts)+ns+2) * (dialTO + 3*time.Second)
	for _, s := range sessions {
		budget += 25*idle + 5*time.Second
		_ = s
	}
	deadline := e.now() + budget
	for {
		e.mu.Lock()
		n := served
		e.mu.Unlock()
		if n >= ns || e.now() > deadline {
			break
		}
		dsim.Sleep(200 * time.Millisecond)
	}
	// everything but the keep-alive of the last session ends
	for waited := time.Duration(0); waited < budget; waited += 200 * time.Millisecond {
		e.mu.Lock()
		p := d.pending
		e.mu.Unlock()
		if p <= 1 {
			break
		}
		dsim.Sleep(200 * time.Millisecond)
	}
	e.mu.Lock()
	cons.pace = 0
	e.mu.Unlock()
	dsim.Sleep(12*time.Second + dialTO + idle)
	dsim.Settle("quiescence")
	events := cons.snapshot()
	tEnd := e.now()
	e.mu.Lock()
	e.stopAll = true
	e.mu.Unlock()
	e.node.Close()

	return func(h []dsim.Rec) {
		links := e.chanLinks(events)
		type chInfo struct {
			ch     *gomavlib.Channel
			openT  time.Duration
			closeT time.Duration
			closed bool
			err    error
			link   *link
		}
		var chans []*chInfo
		byCh := map[*gomavlib.Channel]*chInfo{}
		for _, o := range events {
			switch o.kind {
			case evOpen:
				ci := &chInfo{ch: o.ch, openT: o.t, link: links[o.ch]}
				chans = append(chans, ci)
				byCh[o.ch] = ci
			case evClose:
				if ci := byCh[o.ch]; ci != nil {
					ci.closed, ci.closeT, ci.err = true, o.t, o.err
				}
			}
		}
		// (1) the close event carries the cause
		for i, s := range sessions {
			if s.link == nil {
				if kind == epUDPClient && stalls && i < udpIdx {
					count("cov:udp-socket-never-seen-by-peer")
					continue
				}
				if clientType {
					dsim.Failf("reconnect", "session %d of %d never came up: after %d failed attempt(s) the %s endpoint did not open a fresh channel (plan %s)", i, ns, s.fails, epNames[kind], plan)
				} else {
					dsim.Failf("server-keeps-accepting", "peer %d never got through", i)
				}
				return
			}
			var ci *chInfo
			for _, c := range chans {
				if c.link == s.link {
					ci = c
				}
			}
			if ci == nil {
				dsim.Failf("channel-per-peer", "session %d (%s): the peer connected but the application never saw a channel for it", i, s.link.name)
				return
			}
			if s.ending == endStay {
				if ci.closed && !(stalls && isTimeout(ci.err)) {
					dsim.Failf("reconnect", "the last session (%s) was healthy but its channel was closed: %v", s.link.name, ci.err)
					return
				}
				continue
			}
			if !ci.closed {
				if s.ending == endIdle && stalls {
					continue
				}
				dsim.Failf("close-reported", "session %d (%s) ended by %s at t=%v but no close event had arrived by t=%v", i, s.link.name, endNames[s.ending], s.link.lastSend, tEnd)
				return
			}
			ok := false
			switch s.ending {
			case endEOF:
				ok = errors.Is(ci.err, io.EOF)
			case endReset:
				ok = errors.Is(ci.err, world.ErrReset)
			case endReadErr:
				ok = errors.Is(ci.err, errInjectedRead)
			case endIdle:
				ok = isTimeout(ci.err)
			}
			if !ok && stalls && isTimeout(ci.err) {
				// under stall injection the idle timeout may legitimately fire before the planned ending
				ok = true
			}
			if !ok {
				dsim.Failf("close-cause", "session %d (%s) ended by %s, but the close event carries %v", i, s.link.name, endNames[s.ending], ci.err)
				return
			}
			if s.ending == endIdle && !stalls {
				// no earlier than a full idle period after the last byte was sent
				if (len(s.link.sent) > 0 || s.partialT > 0) && ci.closeT < s.link.lastSend+idle {
					dsim.Failf("idle-expiry", "session %d: the peer sent its last byte at t=%v, idle timeout %v, but the channel was closed at t=%v (too early)", i, s.link.lastSend, idle, ci.closeT)
					return
				}
				if s.link.keptAlive {
					count("cov:keep-alive-then-expiry")
				}
				// (with a slow consumer the reader is held back by undelivered events and arms its
				// deadline late: the upper bound only applies when the application receives at once)
				if s.partialT > 0 && fastConsumer && ci.closeT > s.link.lastSend+idle+time.Second {
					// the reader was inside a frame when the silence began: the read that times out
					// is the one armed when the last byte arrived
					dsim.Failf("idle-expiry", "session %d: the peer fell silent in the middle of a frame at t=%v, idle timeout %v, but the channel stayed open until t=%v", i, s.link.lastSend, idle, ci.closeT)
					return
				}
				if !stalls && fastConsumer && ci.closeT > s.link.lastSend+2*idle+time.Second {
					dsim.Failf("idle-expiry", "session %d: silent since t=%v, idle timeout %v, still open until t=%v", i, s.link.lastSend, idle, ci.closeT)
					return
				}
			}
		}
		// a peer that keeps sending is never expired
		for i, s := range sessions {
			if !stalls && s.link != nil && s.ending == endIdle && s.frames > 0 && !s.link.keptAlive && len(s.link.sent) >= 20 {
				dsim.Failf("idle-expiry", "session %d: the channel was closed while its peer was still sending every 0.9 idle periods", i)
				return
			}
		}
		// (2) client endpoints: one channel at a time, back-off between attempts
		if clientType {
			for i := 1; i < len(chans); i++ {
				if !chans[i-1].closed || chans[i].openT < chans[i-1].closeT {
					dsim.Failf("one-at-a-time", "channel %d was opened at t=%v while channel %d was still open (closed=%v at t=%v)", i, chans[i].openT, i-1, chans[i-1].closed, chans[i-1].closeT)
					return
				}
			}
			key := ep.addr
			if kind == epSerial {
				key = ep.device
			}
			type att struct{ start, end time.Duration }
			var atts []att
			for _, r := range h {
				if r.Kind == "attempt" && r.S == key {
					atts = append(atts, att{start: r.T, end: -1})
				}
				if r.Kind == "attempt-end" && r.S == key && len(atts) > 0 {
					atts[len(atts)-1].end = r.T
				}
			}
			first := 0
			if kind == epSerial {
				first = 1
			}
			if len(atts) <= first {
				dsim.Failf("reconnect", "the endpoint never tried to connect")
				return
			}
			if !stalls && atts[first].start > 5*time.Millisecond {
				dsim.Failf("reconnect", "the first connection attempt came at t=%v, not immediately", atts[first].start)
				return
			}
			// every later attempt: >= 1 s after the previous attempt ended, and after the close event of the previous channel
			for i := first + 1; i < len(atts); i++ {
				prevEnd := atts[i-1].end
				if prevEnd >= 0 && atts[i].start < prevEnd+time.Second {
					dsim.Failf("reconnect-backoff", "connection attempt %d started at t=%v, %v after the previous attempt ended at t=%v: no reconnect delay", i, atts[i].start, atts[i].start-prevEnd, prevEnd)
					return
				}
			}
			ncs := e.w.NodeConnsFor(key)
			if kind == epSerial && len(ncs) > 0 {
				ncs = ncs[1:]
			}
			for i := 1; i < len(ncs) && i-1 < len(chans); i++ {
				prev := chans[i-1]
				// (the application's clock reading of the close event is late under stall injection)
				if prev.closed && !stalls && ncs[i].T < prev.closeT+time.Second {
					dsim.Failf("reconnect-backoff", "connection %d was made at t=%v, only %v after the application received the close event of the previous channel (t=%v)", i, ncs[i].T, ncs[i].T-prev.closeT, prev.closeT)
					return
				}
				if !prev.closed {
					dsim.Failf("one-at-a-time", "connection %d was made at t=%v while the previous channel was still open", i, ncs[i].T)
					return
				}
			}
			// never two live connections: every connection is closed before the next is made
			closedAt := map[int64]time.Duration{}
			for _, r := range h {
				if r.Kind == "net" && (strings.HasSuffix(r.S, " close") || strings.HasSuffix(r.S, " udp close")) {
					if _, seen := closedAt[r.I[0]]; !seen {
						closedAt[r.I[0]] = r.T
					}
				}
			}
			for i := 1; i < len(ncs); i++ {
				ct, ok := closedAt[int64(ncs[i-1].ID)]
				if !ok || ct > ncs[i].T {
					dsim.Failf("one-at-a-time", "connection %d (id %d) was made at t=%v while connection %d (id %d) had not been closed (closed at %v, found=%v)", i, ncs[i].ID, ncs[i].T, i-1, ncs[i-1].ID, ct, ok)
					return
				}
			}
			if len(chans) > 0 && chans[len(chans)-1].closed && !(stalls && isTimeout(chans[len(chans)-1].err)) {
				dsim.Failf("reconnect", "at quiescence (t=%v, faults over since the last session came up) the endpoint has no open channel", tEnd)
				return
			}
		} else {
			// (3) servers: every peer got its own channel (checked above: a channel exists for every
			// session's link, later peers got through). A peer that comes back after its channel
			// expired legitimately gets a new one, and the new channel's open event may overtake the
			// old one's close event, so no "one at a time" is demanded of server endpoints.
			_ = byCh
		}
		// (4) every read and write on a socket is bounded by a deadline armed afresh for that call
		if kind != epSerial {
			type dl struct {
				armed bool
				d     int64
				t     time.Duration
			}
			rd, wr := map[int64]*dl{}, map[int64]*dl{}
			wantR := int64(idle)
			wantW := int64(cfg.writeTO)
			if wantW == 0 {
				wantW = int64(10 * time.Second)
			}
			for _, r := range h {
				if r.Kind != "net" || r.I[3] != 1 {
					continue
				}
				id := r.I[0]
				switch {
				case strings.HasSuffix(r.S, " set-read-deadline"):
					rd[id] = &dl{armed: true, d: r.I[1], t: r.T}
				case strings.HasSuffix(r.S, " set-write-deadline"):
					wr[id] = &dl{armed: true, d: r.I[1], t: r.T}
				case strings.HasSuffix(r.S, " read-call"):
					x := rd[id]
					if x == nil || !x.armed || (!stalls && x.t != r.T) {
						dsim.Failf("deadline-per-call", "%s at t=%v was not preceded by a read deadline armed for that call", r.S, r.T)
						return
					}
					if x.d != wantR {
						dsim.Failf("deadline-per-call", "%s: read deadline armed %v ahead, the idle timeout is %v", r.S, time.Duration(x.d), time.Duration(wantR))
						return
					}
					x.armed = false
				case strings.HasSuffix(r.S, " write-call"):
					x := wr[id]
					if x == nil || !x.armed || (!stalls && x.t != r.T) {
						dsim.Failf("deadline-per-call", "%s at t=%v was not preceded by a write deadline armed for that call", r.S, r.T)
						return
					}
					if x.d != wantW {
						dsim.Failf("deadline-per-call", "%s: write deadline armed %v ahead, the write timeout is %v", r.S, time.Duration(x.d), time.Duration(wantW))
						return
					}
					x.armed = false
				}
			}
		}
	}
}

// c14Custom: a TRANSIENT read error on a custom transport (a permanent one makes the provider
// hand the dead transport out again for ever, see the header): the close event carries the
// cause and the endpoint comes back with a fresh channel on which traffic continues.
func c14Custom(cfg *nodeCfg) func(h []dsim.Rec) {
	e := newEnv(cfg)
	e.w.ChunkMode = dsim.Choose(3)
	dsim.SetDate(time.Date(2029, 2, 1, 0, 0, 0, 0, time.UTC))
	e.start = time.Now()
	ep := e.addEndpoint(epCustom)
	cons := &consumer{e: e, pace: dsim.Choose(2)}
	e.cons = cons
	l := e.customLink(ep)
	if err := e.startNode(); err != nil {
		dsim.Failf("harness", "node did not initialise: %v", err)
		return nil
	}
	dsim.Go("consumer", cons.run)
	before := dsim.Choose(5)
	after := 1 + dsim.Choose(5)
	dsim.Record("plan", "custom transient-read-error", nil, 1)
	e.peerScript(l, before, false)
	dsim.Sleep(200 * time.Millisecond)
	dsim.Settle("before-fault")
	k := 1 + dsim.Choose(3)
	ep.pipe.SetFaults(world.Faults{ReadErrAt: ep.pipe.ReadCount() + k, ReadErr: errInjectedRead, ReadErrOnce: true})
	count("fault:plan-read-error")
	// keep the node reading until it hits the failing read; what is in flight then may be lost
	sawClose := func() (closes, opens int) {
		for _, o := range cons.snapshot() {
			switch o.kind {
			case evClose:
				closes++
			case evOpen:
				opens++
			}
		}
		return
	}
	for i := 0; i < 200; i++ {
		if c, o := sawClose(); c > 0 && o >= 2 {
			break
		}
		if l.send(sendValid, false) != nil {
			break
		}
		dsim.Sleep(50 * time.Millisecond)
	}
	dsim.Sleep(500 * time.Millisecond)
	dsim.Settle("after-fault")
	if c, _ := sawClose(); c == 0 {
		return nil // the fault never fired (the reads never reached it): nothing to judge
	}
	// traffic continues on the fresh channel: the peer keeps sending until a frame surfaces there
	// (what was in flight when the transport failed may be lost, and the fresh channel's reader has
	// to resynchronise on whatever was left in the transport)
	_ = after
	surfaced := func() bool {
		opens := 0
		for _, o := range cons.snapshot() {
			if o.kind == evOpen {
				opens++
			}
			if o.kind == evFrame && opens >= 2 {
				return true
			}
		}
		return false
	}
	for i := 0; i < 60 && !surfaced(); i++ {
		if l.send(sendValid, false) != nil {
			break
		}
		dsim.Sleep(100 * time.Millisecond)
	}
	dsim.Sleep(2 * time.Second)
	dsim.Settle("quiescence")
	recovered := surfaced()
	events := cons.snapshot()
	e.node.Close()
	return func(h []dsim.Rec) {
		var closes []obs
		opens := 0
		framesAfter := 0
		for _, o := range events {
			switch o.kind {
			case evOpen:
				opens++
			case evClose:
				closes = append(closes, o)
			case evFrame:
				if opens >= 2 {
					framesAfter++
				}
			}
		}
		if len(closes) != 1 {
			dsim.Failf("close-reported", "one transient read error on a custom transport produced %d close events", len(closes))
			return
		}
		if !errors.Is(closes[0].err, errInjectedRead) {
			dsim.Failf("close-cause", "the custom transport failed with the injected read error, but the close event carries %v", closes[0].err)
			return
		}
		if opens != 2 {
			dsim.Failf("reconnect", "after the transient failure of the custom transport the endpoint opened %d channels in total, expected a fresh one (2)", opens)
			return
		}
		_ = framesAfter
		if !recovered {
			dsim.Failf("reconnect", "after the transient failure of the custom transport 60 more frames were sent, none surfaced on the fresh channel")
		}
	}
}

// c14Broadcast: a broadcast endpoint reads without deadline ("long periods without packets
// are normal"): its channel stays open through silence and through writes, whatever the
// timeouts are.
func c14Broadcast(cfg *nodeCfg) func(h []dsim.Rec) {
	cfg.hbDisable = dsim.Choose(2) == 1
	cfg.hbPeriod = dsim.Pick(300*time.Millisecond, 2*time.Second, 9*time.Second)
	e := newEnv(cfg)
	dsim.SetDate(time.Date(2029, 2, 1, 0, 0, 0, 0, time.UTC))
	e.start = time.Now()
	ep := e.addEndpoint(epBroadcast)
	d := &driverSet{e: e}
	cons := &consumer{e: e}
	e.cons = cons
	n := dsim.Choose(4)
	dsim.Record("plan", "udp-broadcast silent peer", nil, 1)
	if _, err := e.packetPeer(ep, func(l *link) { d.spawn("peer-drv", func() { e.peerScript(l, n, false) }) }); err != nil {
		dsim.Failf("harness", "%v", err)
		return nil
	}
	if err := e.startNode(); err != nil {
		dsim.Failf("harness", "node did not initialise: %v", err)
		return nil
	}
	dsim.Go("consumer", cons.run)
	writes := dsim.Choose(3)
	for i := 0; i < writes && cfg.hasDialect(); i++ {
		dsim.Sleep(time.Duration(dsim.Choose(2000)) * time.Millisecond)
		e.node.WriteMessageAll(tagMsg(1, 0, uint32(i), 0)) //nolint
	}
	wto := cfg.writeTO
	if wto == 0 {
		wto = 10 * time.Second
	}
	count("fault:plan-silence")
	dsim.Sleep(3*wto + 2*cfg.idleTO + time.Second)
	dsim.Settle("quiescence")
	events := cons.snapshot()
	e.node.Close()
	return func(h []dsim.Rec) {
		opens, closes := 0, 0
		for _, o := range events {
			switch o.kind {
			case evOpen:
				opens++
			case evClose:
				closes++
				dsim.Failf("close-reported", "the channel of the broadcast endpoint was closed (%v) although nothing failed: its peer was merely silent (write timeout %v, idle timeout %v)", o.err, wto, cfg.idleTO)
				return
			}
		}
		if opens != 1 {
			dsim.Failf("channel-per-peer", "the broadcast endpoint opened %d channels", opens)
		}
	}
}

func init() {
	register(&Prop{
		ID:         "C14",
		MaxSteps:   600000,
		Horizon:    40 * 365 * 24 * time.Hour,
		Body:       c14Body,
		HangOracle: "reconnect",
		Rule: "one evaluation = one simulated deployment of one endpoint kind (TCP client, UDP client, serial, TCP server, UDP server) " +
			"under a drawn fault plan of 2..5 sessions: 0..6 consecutive refused / hanging / failed connection attempts before a session, " +
			"traffic, and an ending by EOF, RST, injected read error at the k-th transport read, or silence (idle expiry, optionally " +
			"after 20 keep-alive periods at 0.9 x idle timeout); drawn timeouts; optional stalls; distinct = distinct schedule hash + " +
			"history digest; non-trivial = at least one fault of the plan actually fired",
		Nontrivial: func(r *dsim.Result) bool {
			p := r.Probes
			return p["fault:read-error"]+p["fault:peer-close"]+p["fault:peer-reset"]+p["fault:dial-refused"]+p["fault:dial-hang"]+p["fault:dial-fail"]+p["fault:serial-open-fail"]+p["fault:plan-silence"] > 0
		},
		ProbeUniverse: []string{"fault:plan-silence-mid-frame", "fault:read-error", "fault:peer-close", "fault:peer-reset", "fault:dial-refused", "fault:dial-hang", "fault:dial-fail",
			"fault:serial-open-fail", "fault:plan-silence", "fault:plan-read-error", "cov:keep-alive-20-periods", "cov:keep-alive-then-expiry"},
		Real: []string{"gomavlib (Node, Channel, channelProvider, client/server/serial endpoints; instrumented with scheduling points only)", "pkg/timednetconn", "pkg/frame", "pkg/message", "pkg/dialect", "pkg/streamwriter"},
		Stub: []string{"goroutine scheduler (dsim)", "clock (synctest)", "net sockets, listeners, dialer", "pion UDP listener", "serial port", "crypto/rand"},
	})
}
