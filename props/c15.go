package props

import (
	"time"

	"github.com/bluenviron/gomavlib/v3"
	"github.com/bluenviron/gomavlib/v3/pkg/frame"

	"verif/dsim"
	"verif/ref"
)

// C15 — concurrent use of a node is free of data races.
//
// The union of the node workloads (C10 event streams, C11/C09 fan-out with several writers,
// C12 close under load, C13 sick channels, C14 lifecycle faults, C16 heartbeats and stream
// requests, C08 router chains) runs under the same engine in a binary built with -race. The
// race detector is happens-before based, so the serialised execution still exposes
// unsynchronised pairs; the engine's own hand-offs are invisible to it (//go:norace engine,
// hand-offs bracketed by runtime.RaceDisable/RaceEnable). Oracle: a "WARNING: DATA RACE" report in
// which an access stack contains a function of github.com/bluenviron/gomavlib/v3. The oracles
// of the other properties are muted here.

func c15Body() func(h []dsim.Rec) {
	dsim.MuteFailures()
	switch dsim.Choose(13) {
	case 0:
		c10Body()
	case 1:
		c11Body()
	case 2:
		c12Body()
	case 3:
		c13Body()
	case 4:
		c14Body()
	case 5:
		c16Body()
	case 6:
		c08Chain()
	case 8, 9:
		c15CloseWhileOpening()
	case 10, 11:
		c15Router()
	case 12:
		c15Reuse()
	case 7:
		fanoutRun(fanOpt{rejected: true, streamReq: true, check: func(*env, []*link, []*link, [][]fanItem) {}})
	}
	dsim.Record("race-workload", "", nil)
	return nil
}

// c15Router: an application that forwards (and sometimes edits + FixFrames) every received
// frame while stream requests are on and ArduPilot systems announce themselves: the reader
// goroutines inspect the same frames the application forwards.
func c15Router() {
	cfg := genNodeCfg()
	cfg.hbPeriod = 500 * time.Millisecond
	cfg.srEnable = true
	e := newEnv(cfg)
	e.w.ChunkMode = dsim.Choose(3)
	dsim.SetDate(time.Date(2026, 6, 2, 0, 0, 0, 0, time.UTC))
	n := 2 + dsim.Choose(2)
	for i := 0; i < n; i++ {
		e.addEndpoint(dsim.Pick(epCustom, epTCPServer, epUDPServer))
	}
	d := &driverSet{e: e}
	cons := &consumer{e: e, route: true, edit: dsim.Choose(2) == 1}
	e.cons = cons
	e.peerAPHeartbeats = true
	e.drivePeers(d, false, false, 8)
	if err := e.startNode(); err != nil {
		return
	}
	dsim.Go("router", cons.run)
	d.wait(60 * time.Second)
	dsim.Sleep(2 * time.Second)
	e.node.Close()
}

// c15Reuse: applications that reuse what they pass to the node: one message struct mutated
// between Write* calls, one frame object written to several channels one after the other.
func c15Reuse() {
	cfg := genNodeCfg()
	cfg.dialectKind = 0
	cfg.hbDisable = true
	e := newEnv(cfg)
	dsim.SetDate(time.Date(2026, 6, 3, 0, 0, 0, 0, time.UTC))
	n := 2 + dsim.Choose(2)
	for i := 0; i < n; i++ {
		e.addEndpoint(dsim.Pick(epCustom, epTCPServer))
	}
	d := &driverSet{e: e}
	cons := &consumer{e: e}
	e.cons = cons
	e.drivePeers(d, false, false, 2)
	if err := e.startNode(); err != nil {
		return
	}
	dsim.Go("consumer", cons.run)
	dsim.Sleep(2500 * time.Millisecond)
	chans := e.openChannels()
	// (a) one message struct, mutated after each call returns
	m := tagMsg(1, 0, 0, 0)
	for i := 0; i < 12; i++ {
		m.Index = uint32(i)
		m.Aux = uint16(i * 3)
		var target *gomavlib.Channel
		if len(chans) > 0 {
			target = chans[dsim.Choose(len(chans))]
		}
		switch dsim.Choose(3) {
		case 0:
			e.node.WriteMessageAll(m) //nolint
		case 1:
			e.node.WriteMessageTo(target, m) //nolint
		case 2:
			e.node.WriteMessageExcept(target, m) //nolint
		}
	}
	// (b) one frame object routed to the channels one at a time, decoded and raw
	for round := 0; round < 3; round++ {
		f := &ref.Frame{V2: cfg.version == 2, Seq: byte(round), Sys: 77, Comp: 7, MsgID: ref.DefTag.ID}
		f.Payload = ref.DefTag.Encode(tagVals(2, 0, uint32(round), 0), f.V2)
		f.Checksum = f.ComputeChecksum(ref.DefTag.CRCExtra())
		fr := fromRef(f)
		if round%2 == 0 {
			switch x := fr.(type) {
			case *frame.V1Frame:
				x.Message = tagMsg(2, 0, uint32(round), 0)
			case *frame.V2Frame:
				x.Message = tagMsg(2, 0, uint32(round), 0)
			}
		}
		for _, ch := range chans {
			e.node.WriteFrameTo(ch, fr) //nolint
		}
		e.node.WriteFrameAll(fr) //nolint
	}
	dsim.Sleep(time.Second)
	e.node.Close()
}

// c15CloseWhileOpening: Close lands a drawn number of scheduling steps after Initialize, while
// providers are handing their first channels to the node loop and peers are connecting.
func c15CloseWhileOpening() {
	cfg := genNodeCfg()
	cfg.hbPeriod = 100 * time.Millisecond
	cfg.srEnable = dsim.Choose(2) == 1
	e := newEnv(cfg)
	dsim.SetDate(time.Date(2026, 6, 1, 0, 0, 0, 0, time.UTC))
	n := 1 + dsim.Choose(3)
	for i := 0; i < n; i++ {
		e.addEndpoint(dsim.Pick(epCustom, epTCPServer, epTCPClient, epSerial, epUDPClient))
	}
	d := &driverSet{e: e}
	cons := &consumer{e: e}
	e.cons = cons
	e.peerAPHeartbeats = cfg.srEnable
	e.drivePeers(d, false, false, 3)
	if err := e.startNode(); err != nil {
		return
	}
	if dsim.Choose(2) == 0 {
		dsim.Go("consumer", cons.run)
	}
	if dsim.Choose(2) == 0 {
		w := &writer{e: e, id: 1}
		dsim.Go("writer", func() {
			for i := 0; i < 5; i++ {
				w.writeOne(opMsgAll, nil, "", true)
			}
		})
	}
	k := dsim.Choose(60)
	for i := 0; i < k; i++ {
		dsim.Yield("close-delay")
	}
	e.node.Close()
}

func init() {
	register(&Prop{
		ID:       "C15",
		MaxSteps: 600000,
		Horizon:  40 * 365 * 24 * time.Hour,
		Body:     c15Body,
		Race:     true,
		Rule: "one evaluation = one simulated deployment drawn from the node workloads of C08/C09/C10/C11/C12/C13/C14/C16 (several " +
			"application goroutines writing to all / one / all-but-one channel, forwarding, consuming, closing; heartbeats, stream " +
			"requests, reconnecting providers, faults) executed in a -race build; distinct = distinct schedule hash + history digest; " +
			"non-trivial = at least two tasks interleaved",
		Nontrivial: func(r *dsim.Result) bool { return r.Interleave > 0 },
		Real:       []string{"gomavlib (all of the package, instrumented with scheduling points only, compiled with -race)", "pkg/frame", "pkg/message", "pkg/dialect", "pkg/streamwriter", "pkg/timednetconn"},
		Stub:       []string{"goroutine scheduler (dsim, invisible to the race detector)", "clock (synctest)", "net sockets, pion UDP listener, serial port", "crypto/rand"},
	})
}
