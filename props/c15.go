package props

import (
	"time"

	"verif/dsim"
)

// C15 — concurrent use of a node is free of data races.
//
// The union of the node workloads (C10 event streams, C11/C09 fan-out with several writers,
// C12 close under load, C13 sick channels, C14 lifecycle faults, C16 heartbeats and stream
// requests, C08 router chains) runs under the same engine in a binary built with -race. The
// race detector is happens-before based, so the serialised execution still exposes
// unsynchronised pairs; the engine's own hand-offs are invisible to it (//go:norace engine,
// hand-offs bracketed by runtime.RaceDisable/RaceEnable). Oracle: a "WARNING: DATA RACE" report in
// which an access stack contains a function of github.com/bluenviron/gomavlib/v3. The oracles
// of the other properties are muted here.

func c15Body() func(h []dsim.Rec) {
	dsim.MuteFailures()
	switch dsim.Choose(10) {
	case 0:
		c10Body()
	case 1:
		c11Body()
	case 2:
		c12Body()
	case 3:
		c13Body()
	case 4:
		c14Body()
	case 5:
		c16Body()
	case 6:
		c08Chain()
	case 8, 9:
		c15CloseWhileOpening()
	case 7:
		fanoutRun(fanOpt{rejected: true, streamReq: true, check: func(*env, []*link, []*link, [][]fanItem) {}})
	}
	dsim.Record("race-workload", "", nil)
	return nil
}

// c15CloseWhileOpening: Close lands a drawn number of scheduling steps after Initialize, while
// providers are handing their first channels to the node loop and peers are connecting.
func c15CloseWhileOpening() {
	cfg := genNodeCfg()
	cfg.hbPeriod = 100 * time.Millisecond
	cfg.srEnable = dsim.Choose(2) == 1
	e := newEnv(cfg)
	dsim.SetDate(time.Date(2026, 6, 1, 0, 0, 0, 0, time.UTC))
	n := 1 + dsim.Choose(3)
	for i := 0; i < n; i++ {
		e.addEndpoint(dsim.Pick(epCustom, epTCPServer, epTCPClient, epSerial, epUDPClient))
	}
	d := &driverSet{e: e}
	cons := &consumer{e: e}
	e.cons = cons
	e.peerAPHeartbeats = cfg.srEnable
	e.drivePeers(d, false, false, 3)
	if err := e.startNode(); err != nil {
		return
	}
	if dsim.Choose(2) == 0 {
		dsim.Go("consumer", cons.run)
	}
	if dsim.Choose(2) == 0 {
		w := &writer{e: e, id: 1}
		dsim.Go("writer", func() {
			for i := 0; i < 5; i++ {
				w.writeOne(opMsgAll, nil, "", true)
			}
		})
	}
	k := dsim.Choose(60)
	for i := 0; i < k; i++ {
		dsim.Yield("close-delay")
	}
	e.node.Close()
}

func init() {
	register(&Prop{
		ID:       "C15",
		MaxSteps: 600000,
		Horizon:  40 * 365 * 24 * time.Hour,
		Body:     c15Body,
		Race:     true,
		Rule: "one evaluation = one simulated deployment drawn from the node workloads of C08/C09/C10/C11/C12/C13/C14/C16 (several " +
			"application goroutines writing to all / one / all-but-one channel, forwarding, consuming, closing; heartbeats, stream " +
			"requests, reconnecting providers, faults) executed in a -race build; distinct = distinct schedule hash + history digest; " +
			"non-trivial = at least two tasks interleaved",
		Nontrivial: func(r *dsim.Result) bool { return r.Interleave > 0 },
		Real:       []string{"gomavlib (all of the package, instrumented with scheduling points only, compiled with -race)", "pkg/frame", "pkg/message", "pkg/dialect", "pkg/streamwriter", "pkg/timednetconn"},
		Stub:       []string{"goroutine scheduler (dsim, invisible to the race detector)", "clock (synctest)", "net sockets, pion UDP listener, serial port", "crypto/rand"},
	})
}
