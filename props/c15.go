package props

import (
	"time"

	"verif/dsim"
)

// C15 — concurrent use of a node is free of data races.
//
// The union of the node workloads (C10 event streams, C11/C09 fan-out with several writers,
// C12 close under load, C13 sick channels, C14 lifecycle faults, C16 heartbeats and stream
// requests, C08 router chains) runs under the same engine in a binary built with -race. The
// race detector is happens-before based, so the serialised execution still exposes
// unsynchronised pairs; the engine's own hand-offs are invisible to it (//go:norace engine,
// hand-offs bracketed by runtime.RaceDisable/RaceEnable). Oracle: a "WARNING: DATA RACE" report in
// which an access stack contains a function of github.com/bluenviron/gomavlib/v3. The oracles
// of the other properties are muted here.

func c15Body() func(h []dsim.Rec) {
	dsim.MuteFailures()
	switch dsim.Choose(8) {
	case 0:
		c10Body()
	case 1:
		c11Body()
	case 2:
		c12Body()
	case 3:
		c13Body()
	case 4:
		c14Body()
	case 5:
		c16Body()
	case 6:
		c08Chain()
	case 7:
		fanoutRun(fanOpt{rejected: true, streamReq: true, check: func(*env, []*link, []*link, [][]fanItem) {}})
	}
	dsim.Record("race-workload", "", nil)
	return nil
}

func init() {
	register(&Prop{
		ID:       "C15",
		MaxSteps: 600000,
		Horizon:  40 * 365 * 24 * time.Hour,
		Body:     c15Body,
		Race:     true,
		Rule: "one evaluation = one simulated deployment drawn from the node workloads of C08/C09/C10/C11/C12/C13/C14/C16 (several " +
			"application goroutines writing to all / one / all-but-one channel, forwarding, consuming, closing; heartbeats, stream " +
			"requests, reconnecting providers, faults) executed in a -race build; distinct = distinct schedule hash + history digest; " +
			"non-trivial = at least two tasks interleaved",
		Nontrivial: func(r *dsim.Result) bool { return r.Interleave > 0 },
		Real:       []string{"gomavlib (all of the package, instrumented with scheduling points only, compiled with -race)", "pkg/frame", "pkg/message", "pkg/dialect", "pkg/streamwriter", "pkg/timednetconn"},
		Stub:       []string{"goroutine scheduler (dsim, invisible to the race detector)", "clock (synctest)", "net sockets, pion UDP listener, serial port", "crypto/rand"},
	})
}
