// Package props holds one scenario generator and oracle set per claimed property.
package props

import (
	"crypto/sha256"
	"encoding/binary"
	"encoding/hex"
	"os"
	"sort"
	"time"

	"verif/dsim"
)

// Prop describes how a property is simulated.
type Prop struct {
	ID       string
	MaxSteps int
	Horizon  time.Duration
	// Body is the main task of a run. The function it returns is evaluated by the root
	// goroutine over the merged history after the run.
	Body func() func(h []dsim.Rec)
	// Rule explains what a run is and when it counts as non-trivial.
	Rule string
	// Nontrivial decides whether a finished run is non-trivial.
	Nontrivial func(r *dsim.Result) bool
	// Probes that the evidence should report even when they stayed at zero.
	ProbeUniverse []string
	// HangIsViolation: not finishing before the horizon / step limit is a violation of this
	// property (oracle "liveness") instead of an infrastructure error.
	HangOracle string
	Real       []string
	Stub       []string
	Race       bool
}

// deep is set in the thorough tier: scenarios draw larger deployments and longer histories.
var deep = os.Getenv("VERIF_DEPTH") == "deep"

// depth returns quick in the quick tier and thorough in the thorough tier.
func depth(quick, thorough int) int {
	if deep {
		return thorough
	}
	return quick
}

var registry = map[string]*Prop{}

func register(p *Prop) { registry[p.ID] = p }

// Get returns a registered property.
func Get(id string) *Prop { return registry[id] }

// IDs lists the registered properties.
func IDs() []string {
	var ids []string
	for k := range registry {
		ids = append(ids, k)
	}
	sort.Strings(ids)
	return ids
}

// Digest is a hash of a run's history and schedule (determinism and replay comparison).
func Digest(r *dsim.Result) string {
	h := sha256.New()
	var b [8]byte
	put := func(v int64) {
		binary.LittleEndian.PutUint64(b[:], uint64(v))
		h.Write(b[:])
	}
	for _, rec := range r.History {
		put(int64(rec.Step))
		h.Write([]byte(rec.Task))
		put(int64(rec.N))
		put(int64(rec.T))
		h.Write([]byte(rec.Kind))
		h.Write([]byte{0})
		h.Write([]byte(rec.S))
		h.Write([]byte{0})
		for _, v := range rec.I {
			put(v)
		}
	}
	put(int64(r.Steps))
	put(int64(r.SimTime))
	put(int64(r.SchedHash))
	for _, v := range r.Trace {
		put(int64(v))
	}
	return hex.EncodeToString(h.Sum(nil))[:24]
}

// count is a fault / coverage counter visible in the evidence.
func count(name string) { dsim.Probe(name) }
