package props

import (
	"errors"
	"fmt"
	"io"

	"github.com/bluenviron/gomavlib/v3/pkg/frame"
	"github.com/bluenviron/gomavlib/v3/pkg/message"
	"github.com/bluenviron/gomavlib/v3/pkg/x25"

	"verif/dsim"
	"verif/hd"
	"verif/ref"
)

// C02 — checksum gate. Damage in transit is a link fault; the gate is decided by injecting
// every single-bit flip (enumerated per generated frame), byte substitutions and bursts into
// frames produced by the reference encoder and reading them with the real reader + dialect.
//
// Not demanded: a particular resynchronisation after damage to marker, length, message id or
// incompatibility flags (only soundness is asserted there).

// readStream returns what the real reader makes of data (EOF-terminated).
func readStream(data []byte, cfg readerCfg) ([]rdResult, bool) {
	return readAll("C02", data, 0, len(data), io.EOF, cfg)
}

// soundness: every returned frame that carries a decoded (non-raw) message corresponds to a
// span that the reference parses as one frame whose checksum is valid for that message.
func checkSound(prop string, data []byte, res []rdResult) bool {
	for _, r := range res {
		if r.kind != 0 {
			continue
		}
		if _, raw := r.fr.GetMessage().(*message.MessageRaw); raw {
			id := r.fr.GetMessage().GetID()
			if ref.DefByID(ref.HarnessDefs, id) != nil {
				dsim.Failf("gate-sound", "%s: id %d belongs to the dialect but the frame was delivered undecoded", prop, id)
				return false
			}
			continue
		}
		span := data[r.from:r.to]
		rf, n, err := ref.Decode(span)
		if err != nil || n != len(span) {
			dsim.Failf("gate-sound", "%s: decoded message delivered for a span that is not one frame: %s", prop, hexs(span))
			return false
		}
		d := ref.DefByID(ref.HarnessDefs, rf.MsgID)
		if d == nil {
			dsim.Failf("gate-sound", "%s: decoded message for id %d which is not in the dialect", prop, rf.MsgID)
			return false
		}
		if rf.ComputeChecksum(d.CRCExtra()) != rf.Checksum {
			dsim.Failf("gate-sound", "%s: a frame whose checksum is wrong was delivered as a decoded message: %s (reference crc %04x, carried %04x)",
				prop, hexs(span), rf.ComputeChecksum(d.CRCExtra()), rf.Checksum)
			return false
		}
	}
	return true
}

// protectedOffsets: bytes whose damage leaves framing, id and incompat flags intact.
func protectedOffset(f *ref.Frame, off int) bool {
	if !f.V2 {
		// FE len seq sys comp id payload crc
		return off >= 2 && off != 5
	}
	// FD len inc cmp seq sys comp id0 id1 id2 payload crc [sig]
	end := 10 + len(f.Payload) + 2
	return off >= 3 && (off < 7 || off >= 10) && off < end
}

func c02Body() func(h []dsim.Rec) {
	cfg := readerCfg{drw: hd.NewRW()}
	nframes := 1 + dsim.Choose(3)
	flips := 0
	for k := 0; k < nframes; k++ {
		v2 := dsim.Choose(2) == 0
		f, d, vals := genDialectFrame(v2)
		if v2 && dsim.Choose(3) == 0 {
			signValid(f, d, genKey(), genByte(), genUint(48)) // a signature block follows the checksum
		}
		good := f.Encode()
		dsim.Record("frame", fmt.Sprintf("%x", good), nil, int64(len(good)))

		// (a) an undamaged frame is always delivered, decoded, with the values that were sent
		res, ok := readStream(good, cfg)
		if !ok {
			return nil
		}
		if len(res) != 2 || res[0].kind != 0 {
			dsim.Failf("gate-complete", "a well-formed %s frame with a correct checksum was not delivered: %v; bytes %s", d.Name, describeAll(res), hexs(good))
			return nil
		}
		if _, raw := res[0].fr.GetMessage().(*message.MessageRaw); raw {
			dsim.Failf("gate-complete", "a valid %s frame was delivered undecoded", d.Name)
			return nil
		}
		if got := d.Canon(hd.ToValues(res[0].fr.GetMessage()), v2); !ref.EqualValues(got, vals) {
			dsim.Failf("gate-complete", "%s decoded to %v, sent %v (payload %s)", d.Name, got, vals, hexs(f.Payload))
			return nil
		}

		// (a') ... however the link cuts it in two, and with another frame following
		if len(good) <= 80 || dsim.Choose(4) == 0 {
			f2, d2, _ := genDialectFrame(v2)
			two := append(append([]byte(nil), good...), f2.Encode()...)
			for cut := 1; cut < len(two); cut++ {
				res, ok := readAllCut("C02", two, 3, cut, len(two), io.EOF, cfg)
				if !ok {
					return nil
				}
				if len(res) != 3 || res[0].kind != 0 || res[1].kind != 0 {
					dsim.Failf("gate-complete", "two well-formed frames (%s, %s) cut at offset %d of the stream were not both delivered: %v; bytes %s", d.Name, d2.Name, cut, describeAll(res), hexs(two))
					return nil
				}
			}
			count("cov:all-two-way-cuts")
		}

		// (b) every single-bit flip of the frame
		for off := 0; off < len(good); off++ {
			for bit := 0; bit < 8; bit++ {
				bad := append([]byte(nil), good...)
				bad[off] ^= 1 << uint(bit)
				flips++
				res, ok := readStream(bad, cfg)
				if !ok {
					return nil
				}
				if !checkSound("C02", bad, res) {
					return nil
				}
				if protectedOffset(f, off) {
					// CRC-16 detects every single-bit error: nothing may be delivered, and the
					// rejection is a parse error
					df, _, err := ref.Decode(bad)
					expectDeliver := err == nil && df.ComputeChecksum(d.CRCExtra()) == df.Checksum
					delivered := false
					for _, r := range res {
						if r.kind == 0 {
							delivered = true
						}
					}
					if delivered != expectDeliver {
						dsim.Failf("gate-complete", "bit %d of byte %d flipped in a %s frame: delivered=%v but reference checksum valid=%v; bytes %s",
							bit, off, d.Name, delivered, expectDeliver, hexs(bad))
						return nil
					}
					if !expectDeliver && (len(res) < 2 || res[0].kind != 1 || res[0].to != len(bad)) {
						dsim.Failf("gate-complete", "damaged frame not rejected as exactly one parse error: %v", describeAll(res))
						return nil
					}
				}
			}
		}
		count("fault:single-bit-flip")

		// (c) substitutions and bursts, outcome predicted by the reference CRC
		for t := 0; t < 12; t++ {
			bad := append([]byte(nil), good...)
			switch dsim.Choose(3) {
			case 0: // byte substitution
				bad[dsim.Choose(len(bad))] = genByte()
				count("fault:byte-substitution")
			case 1: // burst
				at := dsim.Choose(len(bad))
				for i := at; i < len(bad) && i < at+1+dsim.Choose(6); i++ {
					bad[i] = byte(dsim.Choose(256))
				}
				count("fault:burst")
			case 2: // damage with the checksum "repaired" for a wrong CRC_EXTRA (omitted / another message's)
				df, _, _ := ref.Decode(bad)
				other := ref.HarnessDefs[dsim.Choose(len(ref.HarnessDefs))]
				if dsim.Choose(2) == 0 {
					df.Checksum = ref.CRC(bad[1 : len(bad)-2-sigLen(df)]) // no CRC_EXTRA at all
				} else {
					df.Checksum = df.ComputeChecksum(other.CRCExtra() ^ 0x5A)
				}
				bad = df.Encode()
				count("fault:wrong-crc-extra")
			}
			res, ok := readStream(bad, cfg)
			if !ok {
				return nil
			}
			if !checkSound("C02", bad, res) {
				return nil
			}
			df, n, err := ref.Decode(bad)
			if err == nil && n == len(bad) && df.MsgID == f.MsgID && df.V2 == f.V2 && (df.Incompat&^ref.IncompatSigned) == 0 {
				valid := df.ComputeChecksum(d.CRCExtra()) == df.Checksum
				if valid && !v2 && len(df.Payload) != len(f.Payload) {
					continue
				}
				delivered := len(res) > 0 && res[0].kind == 0
				if delivered != valid {
					dsim.Failf("gate-complete", "damaged %s frame: delivered=%v, reference says checksum valid=%v; bytes %s", d.Name, delivered, valid, hexs(bad))
					return nil
				}
			}
		}
	}
	// (d) x25.X25 agrees with the bitwise CRC under any split into Write calls
	data := genBytes(dsim.Choose(300))
	h := x25.New()
	for off := 0; off < len(data); {
		n := 1 + dsim.Choose(len(data)-off)
		h.Write(data[off : off+n])
		off += n
	}
	if h.Sum16() != ref.CRC(data) {
		dsim.Failf("crc-function", "x25 of %s = %04x, CRC-16/MCRF4XX = %04x", hexs(data), h.Sum16(), ref.CRC(data))
	}
	dsim.Record("flips", "", nil, int64(flips))

	// (e) the gate is not bypassed by authentication: a reader that also holds an incoming key
	// delivers the frame signed by the key holder, and refuses the same frame when its checksum is
	// wrong although the signature (computed over the bytes as sent, checksum included) is valid —
	// a sender with the key and a wrong CRC_EXTRA (another dialect version) produces exactly that.
	{
		f, d, vals := genDialectFrame(true)
		key, link, ts := genKey(), genByte(), genUint(48)
		kcfg := readerCfg{drw: cfg.drw, key: frame.NewV2Key(key[:])}
		signValid(f, d, key, link, ts)
		good := f.Encode()
		res, ok := readStream(good, kcfg)
		if !ok {
			return nil
		}
		if len(res) != 2 || res[0].kind != 0 {
			dsim.Failf("gate-complete", "keyed reader: a validly signed %s frame with a correct checksum was not delivered: %v; bytes %s", d.Name, describeAll(res), hexs(good))
			return nil
		}
		if _, raw := res[0].fr.GetMessage().(*message.MessageRaw); raw {
			dsim.Failf("gate-complete", "keyed reader: a valid %s frame was delivered undecoded", d.Name)
			return nil
		}
		if got := d.Canon(hd.ToValues(res[0].fr.GetMessage()), true); !ref.EqualValues(got, vals) {
			dsim.Failf("gate-complete", "keyed reader: %s decoded to %v, sent %v", d.Name, got, vals)
			return nil
		}
		switch dsim.Choose(3) {
		case 0:
			f.Checksum ^= uint16(1 + dsim.Choose(0xFFFF))
		case 1:
			f.Checksum = ref.CRC(good[1 : 10+len(f.Payload)]) // CRC_EXTRA omitted
		case 2:
			f.Checksum = f.ComputeChecksum(d.CRCExtra() ^ byte(1+dsim.Choose(255)))
		}
		sign(f, key, link, ts)
		bad := f.Encode()
		count("fault:signed-over-wrong-checksum")
		res, ok = readStream(bad, kcfg)
		if !ok {
			return nil
		}
		if f.ComputeChecksum(d.CRCExtra()) != f.Checksum {
			for _, r := range res {
				if r.kind == 0 {
					dsim.Failf("gate-complete", "keyed reader: a %s frame with a wrong checksum (carried %04x, reference %04x) and a valid signature was delivered; bytes %s",
						d.Name, f.Checksum, f.ComputeChecksum(d.CRCExtra()), hexs(bad))
					return nil
				}
			}
			if len(res) < 2 || res[0].kind != 1 || res[0].to != len(bad) {
				dsim.Failf("gate-complete", "keyed reader: signed frame with a wrong checksum not rejected as exactly one parse error: %v", describeAll(res))
				return nil
			}
		}
	}
	return nil
}

func sigLen(f *ref.Frame) int {
	if f.Signed() {
		return 13
	}
	return 0
}

func describeAll(res []rdResult) []string {
	var out []string
	for _, r := range res {
		out = append(out, describe(r))
	}
	return out
}

var _ = errors.Is
var _ frame.Frame

func init() {
	register(&Prop{
		ID:       "C02",
		MaxSteps: 1000,
		Body:     c02Body,
		Rule: "one evaluation = 1..3 generated valid harness-dialect frames, each read undamaged, under EVERY single-bit flip of its " +
			"bytes (enumerated), and under 12 drawn substitutions / bursts / wrong-CRC_EXTRA repairs, by the real reader with the dialect; " +
			"the outcome (delivered or parse error) is predicted by the bitwise reference CRC; plus one x25 vs bitwise-CRC comparison under a " +
			"drawn split, and one frame signed by a key holder read by a keyed reader, intact and with a wrong checksum under a valid signature; " +
			"every delivered frame is compared with itself at the end of the stream (delivered-stable); distinct = distinct history digest; non-trivial = at least 100 single-bit flips were evaluated",
		Nontrivial: func(r *dsim.Result) bool {
			for _, rec := range r.History {
				if rec.Kind == "flips" {
					return rec.I[0] >= 100
				}
			}
			return false
		},
		ProbeUniverse: []string{"fault:single-bit-flip", "fault:byte-substitution", "fault:burst", "fault:wrong-crc-extra", "fault:signed-over-wrong-checksum"},
		Real:          []string{"pkg/frame.Reader", "pkg/dialect", "pkg/message", "pkg/x25"},
		Stub:          []string{"damaging link (bit flips, substitutions, bursts)", "reference CRC and CRC_EXTRA as oracle"},
	})
}
