package props

import (
	"errors"
	"fmt"
	"io"

	"github.com/bluenviron/gomavlib/v3/pkg/frame"
	"github.com/bluenviron/gomavlib/v3/pkg/message"

	"verif/dsim"
	"verif/ref"
)

// ---------------------------------------------------------------------------
// generators (all draws come from the run's choice stream; 0 is the simple value)

var edgeBytes = []byte{0x00, 0x01, 0x7F, 0x80, 0xFD, 0xFE, 0xFF}

func genByte() byte {
	if dsim.Choose(3) == 0 {
		return edgeBytes[dsim.Choose(len(edgeBytes))]
	}
	return byte(dsim.Choose(256))
}

func genBytes(n int) []byte {
	b := make([]byte, n)
	switch dsim.Choose(4) {
	case 0: // zeros with a few non-zero bytes
		for k := dsim.Choose(3); k > 0 && n > 0; k-- {
			b[dsim.Choose(n)] = genByte()
		}
	case 1:
		for i := range b {
			b[i] = genByte()
		}
	default:
		for i := range b {
			b[i] = byte(dsim.Choose(256))
		}
	}
	return b
}

func genLen() int {
	switch dsim.Choose(6) {
	case 0:
		return 1 + dsim.Choose(12)
	case 1:
		return 0
	case 2:
		return 255
	case 3:
		return 254
	case 4:
		return 1
	}
	return dsim.Choose(256)
}

func genUint(bits uint) uint64 {
	max := uint64(1)<<bits - 1
	switch dsim.Choose(8) {
	case 0:
		return uint64(dsim.Choose(16))
	case 1:
		return 0
	case 2:
		return max
	case 3:
		return max - uint64(dsim.Choose(4))
	case 4:
		return uint64(1) << uint(dsim.Choose(int(bits)))
	case 5:
		return uint64(1)<<uint(dsim.Choose(int(bits))) - 1
	}
	var v uint64
	for i := uint(0); i < bits; i += 8 {
		v |= uint64(dsim.Choose(256)) << i
	}
	return v & max
}

func genMsgID(v2 bool) uint32 {
	if !v2 {
		return uint32(genUint(8))
	}
	switch dsim.Choose(8) {
	case 0:
		return uint32(dsim.Choose(256))
	case 1:
		return 256
	case 2:
		return 0xFFFF
	case 3:
		return 0x10000
	case 4:
		return 0xFFFFFF
	}
	return uint32(genUint(24))
}

// genRawFrame draws an arbitrary well-formed frame (checksum and signature are arbitrary
// values: without a dialect and key nothing validates them).
func genRawFrame(v2, signed bool) *ref.Frame {
	f := &ref.Frame{V2: v2, Seq: genByte(), Sys: genByte(), Comp: genByte()}
	f.MsgID = genMsgID(v2)
	f.Payload = genBytes(genLen())
	f.Checksum = uint16(genUint(16))
	if v2 {
		f.Compat = genByte()
		if signed {
			f.Incompat = ref.IncompatSigned
			f.LinkID = genByte()
			f.Timestamp = genUint(48)
			copy(f.Signature[:], genBytes(6))
		}
	}
	return f
}

// genValues draws field values for a definition (raw bits; strings with and without NULs
// and over-length).
func genValues(d *ref.MsgDef) ref.Values {
	vals := make(ref.Values, len(d.Fields))
	for i, f := range d.Fields {
		if f.Type == "char" {
			n := dsim.Choose(f.ArrLen + 3)
			s := make([]byte, n)
			for k := range s {
				s[k] = byte('a' + dsim.Choose(26))
			}
			vals[i] = ref.Value{Str: string(s)}
			continue
		}
		n := 1
		if f.ArrLen > 0 {
			n = f.ArrLen
		}
		el := make([]uint64, n)
		bits := uint(8 * ref.TypeSize(f.Type))
		if n > 16 {
			// long arrays: mostly zero tail so that truncation has something to do
			fill := dsim.Choose(n + 1)
			for k := 0; k < fill; k++ {
				el[k] = uint64(dsim.Choose(256))
			}
		} else {
			for k := range el {
				el[k] = genUint(bits)
			}
		}
		vals[i] = ref.Value{Elems: el}
	}
	return vals
}

// genDialectFrame draws a valid frame carrying a harness-dialect message (canonical payload,
// correct checksum). Signature fields are filled by the caller when needed.
func genDialectFrame(v2 bool) (*ref.Frame, *ref.MsgDef, ref.Values) {
	var d *ref.MsgDef
	for {
		d = ref.HarnessDefs[dsim.Choose(len(ref.HarnessDefs))]
		if v2 || d.ID <= 255 {
			break
		}
	}
	vals := genValues(d)
	f := &ref.Frame{V2: v2, Seq: genByte(), Sys: genByte(), Comp: genByte(), MsgID: d.ID}
	f.Payload = d.Encode(vals, v2)
	f.Checksum = f.ComputeChecksum(d.CRCExtra())
	return f, d, d.Canon(vals, v2)
}

// sign fills the signature block. The checksum covers the incompatibility flags, so a frame
// whose checksum matters must get the signed flag first (resign recomputes it).
func sign(f *ref.Frame, key [32]byte, link byte, ts uint64) {
	f.Incompat |= ref.IncompatSigned
	f.LinkID = link
	f.Timestamp = ts
	f.Signature = f.ComputeSignature(key)
}

// signValid marks the frame signed, recomputes the checksum for def (when known) and signs.
func signValid(f *ref.Frame, d *ref.MsgDef, key [32]byte, link byte, ts uint64) {
	f.Incompat |= ref.IncompatSigned
	if d != nil {
		f.Checksum = f.ComputeChecksum(d.CRCExtra())
	}
	sign(f, key, link, ts)
}

func genKey() [32]byte {
	var k [32]byte
	copy(k[:], genBytes(32))
	return k
}

// ---------------------------------------------------------------------------
// conversion between the real frame types and ref.Frame (harness glue)

func toRef(fr frame.Frame) (*ref.Frame, error) {
	raw, ok := fr.GetMessage().(*message.MessageRaw)
	if !ok {
		return nil, fmt.Errorf("message is %T, not raw", fr.GetMessage())
	}
	switch f := fr.(type) {
	case *frame.V1Frame:
		return &ref.Frame{Seq: f.SequenceNumber, Sys: f.SystemID, Comp: f.ComponentID, MsgID: raw.ID,
			Payload: append([]byte(nil), raw.Payload...), Checksum: f.Checksum}, nil
	case *frame.V2Frame:
		g := &ref.Frame{V2: true, Incompat: f.IncompatibilityFlag, Compat: f.CompatibilityFlag,
			Seq: f.SequenceNumber, Sys: f.SystemID, Comp: f.ComponentID, MsgID: raw.ID,
			Payload: append([]byte(nil), raw.Payload...), Checksum: f.Checksum,
			LinkID: f.SignatureLinkID, Timestamp: f.SignatureTimestamp}
		if f.Signature != nil {
			g.Signature = *f.Signature
		}
		return g, nil
	}
	return nil, fmt.Errorf("unknown frame type %T", fr)
}

// headerRef copies the header fields of a real frame (message left out).
func headerRef(fr frame.Frame) *ref.Frame {
	switch f := fr.(type) {
	case *frame.V1Frame:
		return &ref.Frame{Seq: f.SequenceNumber, Sys: f.SystemID, Comp: f.ComponentID, MsgID: f.Message.GetID(), Checksum: f.Checksum}
	case *frame.V2Frame:
		g := &ref.Frame{V2: true, Incompat: f.IncompatibilityFlag, Compat: f.CompatibilityFlag,
			Seq: f.SequenceNumber, Sys: f.SystemID, Comp: f.ComponentID, MsgID: f.Message.GetID(), Checksum: f.Checksum,
			LinkID: f.SignatureLinkID, Timestamp: f.SignatureTimestamp}
		if f.Signature != nil {
			g.Signature = *f.Signature
		}
		return g
	}
	return nil
}

func fromRef(f *ref.Frame) frame.Frame {
	raw := &message.MessageRaw{ID: f.MsgID, Payload: append([]byte(nil), f.Payload...)}
	if !f.V2 {
		return &frame.V1Frame{SequenceNumber: f.Seq, SystemID: f.Sys, ComponentID: f.Comp, Message: raw, Checksum: f.Checksum}
	}
	g := &frame.V2Frame{IncompatibilityFlag: f.Incompat, CompatibilityFlag: f.Compat, SequenceNumber: f.Seq,
		SystemID: f.Sys, ComponentID: f.Comp, Message: raw, Checksum: f.Checksum}
	if f.Signed() {
		g.SignatureLinkID = f.LinkID
		g.SignatureTimestamp = f.Timestamp
		sig := frame.V2Signature(f.Signature)
		g.Signature = &sig
	}
	return g
}

// ---------------------------------------------------------------------------
// simulated byte links (sequential scenarios)

var errInjected = errors.New("injected transport error")

// chunkReader delivers data in chunks drawn from the choice stream and ends with err.
type chunkReader struct {
	data     []byte
	pos      int
	mode     int // 0 all at once, 1 byte by byte, 2 random, 3 two pieces cut at cutAt
	cutAt    int
	err      error
	errAt    int // offset at which err is returned (len(data) = after everything)
	drawn    int // bytes handed out
	zeroRuns int
	reads    int
	errs     int // times err was handed to the reader
}

func (c *chunkReader) Read(p []byte) (int, error) {
	c.reads++
	limit := c.errAt
	if limit > len(c.data) {
		limit = len(c.data)
	}
	if c.pos >= limit {
		c.errs++
		return 0, c.err
	}
	n := limit - c.pos
	if n > len(p) {
		n = len(p)
	}
	switch c.mode {
	case 1:
		n = 1
	case 3:
		if c.pos < c.cutAt && c.pos+n > c.cutAt {
			n = c.cutAt - c.pos
		}
	case 2:
		if c.zeroRuns < 3 && dsim.Choose(12) == 11 {
			c.zeroRuns++
			count("fault:zero-length-read")
			return 0, nil
		}
		c.zeroRuns = 0
		if dsim.Choose(2) == 0 {
			n = 1 + dsim.Choose(n)
		} else if k := 1 + dsim.Choose(8); k < n {
			n = k
		}
	}
	copy(p, c.data[c.pos:c.pos+n])
	c.pos += n
	c.drawn += n
	return n, nil
}

// capWriter records every Write call; the k-th call can fail after accepting a prefix.
type capWriter struct {
	writes  [][]byte
	failAt  int // index of the failing call, -1 never
	failLen int // bytes accepted by the failing call
	err     error
	all     []byte
}

func (w *capWriter) Write(p []byte) (int, error) {
	idx := len(w.writes)
	w.writes = append(w.writes, append([]byte(nil), p...))
	if w.failAt >= 0 && idx >= w.failAt {
		n := w.failLen
		if idx > w.failAt {
			n = 0
		}
		if n > len(p) {
			n = len(p)
		}
		w.all = append(w.all, p[:n]...)
		return n, w.err
	}
	w.all = append(w.all, p...)
	return len(p), nil
}

var _ io.Writer = (*capWriter)(nil)

func hexs(b []byte) string {
	if len(b) > 48 {
		return fmt.Sprintf("%x..(%d bytes)", b[:48], len(b))
	}
	return fmt.Sprintf("%x", b)
}
