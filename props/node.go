package props

import (
	"fmt"
	"sync"
	"time"

	"github.com/bluenviron/gomavlib/v3"
	"github.com/bluenviron/gomavlib/v3/pkg/dialect"
	"github.com/bluenviron/gomavlib/v3/pkg/frame"
	"github.com/bluenviron/gomavlib/v3/pkg/message"

	"verif/dsim"
	"verif/hd"
	"verif/ref"
	"verif/world"
)

// ---------------------------------------------------------------------------
// Common node scenario machinery (C08..C16): a real instrumented gomavlib.Node inside the
// bubble, simulated peers speaking MAVLink with the reference codec only, and application
// tasks that use nothing but the public API.

// endpoint kinds
const (
	epCustom = iota
	epTCPServer
	epTCPClient
	epUDPServer
	epUDPClient
	epSerial
	epBroadcast
	numEpKinds
)

var epNames = [...]string{"custom", "tcp-server", "tcp-client", "udp-server", "udp-client", "serial", "udp-broadcast"}

type epCfg struct {
	kind   int
	port   int
	addr   string
	conf   gomavlib.EndpointConf
	device string
	pipe   *world.Conn // custom: node side
	pipeP  *world.Conn // custom: peer side
	serial *world.SerialLine
	bport  int // broadcast port
}

type nodeCfg struct {
	version     int // 1 or 2
	sysID       byte
	compID      byte // 0 = unset
	dialectKind int  // 0 harness, 1 none, 2 harness without id 0, 3 harness with a non-standard id 0, 4 harness without id 66
	inKey       *[32]byte
	outKey      *[32]byte
	hbDisable   bool
	hbPeriod    time.Duration // 0 = default
	hbSysType   int
	hbAutopilot int
	srEnable    bool
	srFreq      int
	readTO      time.Duration
	writeTO     time.Duration
	idleTO      time.Duration
	eps         []*epCfg
	shared      *dialect.Dialect // when set: the Dialect value is one that another node of the process uses too
}

func (c *nodeCfg) dialect() *dialect.Dialect {
	if c.shared != nil {
		return c.shared
	}
	switch c.dialectKind {
	case 1:
		return nil
	case 2:
		return &dialect.Dialect{Version: hd.DialectVersion, Messages: hd.Messages()[1:]}
	case 3:
		return &dialect.Dialect{Version: hd.DialectVersion, Messages: append([]message.Message{&hd.MessageOddZero{}}, hd.Messages()[1:]...)}
	case 4:
		m := hd.Messages()
		return &dialect.Dialect{Version: hd.DialectVersion, Messages: append(m[:1:1], m[2:]...)}
	case 5: // invalid: two messages with the same id
		return &dialect.Dialect{Version: hd.DialectVersion, Messages: append(hd.Messages(), &hd.MessageVerifTag{})}
	}
	return hd.New()
}

func (c *nodeCfg) hasDialect() bool { return c.dialectKind != 1 }

func (c *nodeCfg) hbExpected() bool {
	return !c.hbDisable && (c.dialectKind == 0 || c.dialectKind == 4)
}

func (c *nodeCfg) srExpected() bool { return c.srEnable && c.dialectKind == 0 }

func (c *nodeCfg) effHbPeriod() time.Duration {
	if c.hbPeriod == 0 {
		return 5 * time.Second
	}
	return c.hbPeriod
}

func (c *nodeCfg) effCompID() byte {
	if c.compID == 0 {
		return 1
	}
	return c.compID
}

func (c *nodeCfg) String() string {
	s := fmt.Sprintf("v%d sys=%d comp=%d dialect=%d inKey=%v outKey=%v hb(dis=%v per=%v type=%d ap=%d) sr(en=%v f=%d) to(r=%v w=%v i=%v) eps=[",
		c.version, c.sysID, c.compID, c.dialectKind, c.inKey != nil, c.outKey != nil, c.hbDisable, c.hbPeriod, c.hbSysType, c.hbAutopilot,
		c.srEnable, c.srFreq, c.readTO, c.writeTO, c.idleTO)
	for i, e := range c.eps {
		if i > 0 {
			s += " "
		}
		s += fmt.Sprintf("%s:%d", epNames[e.kind], e.port)
	}
	return s + "]"
}

// env is one simulated deployment.
type env struct {
	w     *world.World
	cfg   *nodeCfg
	node  *gomavlib.Node
	start time.Time

	mu               sync.Mutex // application-level registry shared by application tasks (as a real application would)
	open             []*gomavlib.Channel
	links            []*link
	nlinks           int
	stopAll          bool
	cons             *consumer
	writers          []*writer
	closed           bool
	started          bool
	peerNoRead       bool // odd-numbered peer links never read what the node writes
	peerAPHeartbeats bool // peers also send ArduPilot heartbeats from fresh identities
	slowLinks        bool // stream peers now and then pause mid-frame for longer than the node's idle timeout
}

// newEnv makes the world; endpoints are added with addEndpoint before startNode.
func newEnv(cfg *nodeCfg) *env {
	e := &env{w: world.New(), cfg: cfg, start: time.Now()}
	return e
}

func (e *env) addEndpoint(kind int) *epCfg {
	ep := &epCfg{kind: kind, port: 5600 + 10*len(e.cfg.eps)}
	ep.addr = fmt.Sprintf("127.0.0.1:%d", ep.port)
	switch kind {
	case epCustom:
		ep.pipe, ep.pipeP = e.w.Pipe(fmt.Sprintf("pipe%d", len(e.cfg.eps)))
		ep.conf = gomavlib.EndpointCustom{ReadWriteCloser: ep.pipe}
	case epTCPServer:
		ep.conf = gomavlib.EndpointTCPServer{Address: ep.addr}
	case epTCPClient:
		ep.conf = gomavlib.EndpointTCPClient{Address: ep.addr}
	case epUDPServer:
		ep.conf = gomavlib.EndpointUDPServer{Address: ep.addr}
	case epUDPClient:
		ep.conf = gomavlib.EndpointUDPClient{Address: ep.addr}
	case epSerial:
		ep.device = fmt.Sprintf("/dev/ttySIM%d", len(e.cfg.eps))
		ep.serial = e.w.AddSerial(ep.device)
		ep.conf = gomavlib.EndpointSerial{Device: ep.device, Baud: 57600}
	case epBroadcast:
		ep.bport = ep.port + 1
		ep.conf = gomavlib.EndpointUDPBroadcast{BroadcastAddress: fmt.Sprintf("192.168.7.255:%d", ep.bport), LocalAddress: ep.addr}
	}
	e.cfg.eps = append(e.cfg.eps, ep)
	return ep
}

func key32(k *[32]byte) *frame.V2Key {
	if k == nil {
		return nil
	}
	return frame.NewV2Key(k[:])
}

func (e *env) buildNode() *gomavlib.Node {
	c := e.cfg
	n := &gomavlib.Node{
		Dialect:                c.dialect(),
		InKey:                  key32(c.inKey),
		OutVersion:             gomavlib.Version(c.version),
		OutSystemID:            c.sysID,
		OutComponentID:         c.compID,
		OutKey:                 key32(c.outKey),
		HeartbeatDisable:       c.hbDisable,
		HeartbeatPeriod:        c.hbPeriod,
		HeartbeatSystemType:    c.hbSysType,
		HeartbeatAutopilotType: c.hbAutopilot,
		StreamRequestEnable:    c.srEnable,
		StreamRequestFrequency: c.srFreq,
		ReadTimeout:            c.readTO,
		WriteTimeout:           c.writeTO,
		IdleTimeout:            c.idleTO,
	}
	for _, ep := range c.eps {
		n.Endpoints = append(n.Endpoints, ep.conf)
	}
	return n
}

// startNode initialises the node (in the calling task, so the node's goroutines become its
// children).
func (e *env) startNode() error {
	e.node = e.buildNode()
	dsim.Record("cfg", e.cfg.String(), nil)
	err := e.node.Initialize()
	if err != nil {
		dsim.Record("init-error", err.Error(), nil)
	}
	e.mu.Lock()
	e.started = true
	e.mu.Unlock()
	return err
}

// waitStarted parks the caller until Initialize has returned (peers of server endpoints).
func (e *env) waitStarted() {
	for {
		e.mu.Lock()
		ok := e.started
		e.mu.Unlock()
		if ok {
			return
		}
		dsim.Sleep(time.Millisecond)
	}
}

func (e *env) epIndex(conf gomavlib.EndpointConf) int {
	for i, ep := range e.cfg.eps {
		switch a := ep.conf.(type) {
		case gomavlib.EndpointCustom:
			if b, ok := conf.(gomavlib.EndpointCustom); ok && a.ReadWriteCloser == b.ReadWriteCloser {
				return i
			}
		default:
			if ep.conf == conf {
				return i
			}
		}
	}
	return -1
}

func (e *env) now() time.Duration { return time.Since(e.start) }

// genNodeCfg draws the protocol part of a configuration.
func genNodeCfg() *nodeCfg {
	c := &nodeCfg{version: 2, sysID: 10}
	if dsim.Choose(3) == 2 {
		c.version = 1
	}
	c.sysID = 1 + byte(dsim.Choose(255))
	if dsim.Choose(2) == 1 {
		c.compID = byte(dsim.Choose(256))
	}
	return c
}

// ---------------------------------------------------------------------------
// frames sent by peers and by the application

// tagged builds the harness message carrying (writer, flavour, index).
func tagMsg(writer, flavour byte, index uint32, aux uint16) *hd.MessageVerifTag {
	return &hd.MessageVerifTag{Writer: writer, Flavour: flavour, Index: index, Aux: aux}
}

func tagVals(writer, flavour byte, index uint32, aux uint16) ref.Values {
	return ref.Values{{Elems: []uint64{uint64(writer)}}, {Elems: []uint64{uint64(flavour)}}, {Elems: []uint64{uint64(index)}}, {Elems: []uint64{uint64(aux)}}}
}

// tagOf extracts (writer, flavour, index) from a reference-decoded VERIF_TAG frame.
func tagOf(f *ref.Frame) (writer, flavour byte, index uint32, ok bool) {
	if f.MsgID != ref.DefTag.ID {
		return 0, 0, 0, false
	}
	vals, err := ref.DefTag.Decode(f.Payload, f.V2)
	if err != nil {
		return 0, 0, 0, false
	}
	return byte(vals[0].Elems[0]), byte(vals[1].Elems[0]), uint32(vals[2].Elems[0]), true
}

// sigTicks is the signature timestamp of the current simulated instant.
func sigTicks() uint64 { return uint64(time.Since(sigEpoch) / (10 * time.Microsecond)) }
