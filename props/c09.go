package props

import (
	"fmt"
	"time"

	"github.com/bluenviron/gomavlib/v3"
	"github.com/bluenviron/gomavlib/v3/pkg/frame"
	"github.com/bluenviron/gomavlib/v3/pkg/message"
	"github.com/bluenviron/gomavlib/v3/pkg/streamwriter"

	"verif/dsim"
	"verif/hd"
	"verif/ref"
)

// C09 — originated frames: configured identity, version, gapless sequence numbers.
//
// Three simulated systems: (a) the message writers (streamwriter.Writer,
// frame.Writer.WriteMessage) on a byte link, with histories of accepted and rejected writes
// well beyond the 256 wrap-around; (b) the initialisation matrix of Node and
// streamwriter.Writer; (c) a whole node with several channels of several endpoint kinds,
// concurrent writers (> 600 writes per link), heartbeats, stream requests and forwarded frames
// interleaved, under the scheduler, with flow control so that queue overflow cannot drop.
//
// Not demanded: anything about forwarded frames (they keep their own header, C11).

// originatedChecker follows the originated frames of one link.
type originatedChecker struct {
	name    string
	sys     byte
	comp    byte
	v2      bool
	key     *[32]byte
	n       int
	nextSeq byte
}

func (c *originatedChecker) check(i int, f *ref.Frame) bool {
	if f.V2 != c.v2 {
		dsim.Failf("originated-version", "%s: frame %d is v2=%v, configured v2=%v", c.name, i, f.V2, c.v2)
		return false
	}
	if f.Sys != c.sys || f.Comp != c.comp {
		dsim.Failf("originated-identity", "%s: frame %d carries sys=%d comp=%d, configured sys=%d comp=%d", c.name, i, f.Sys, f.Comp, c.sys, c.comp)
		return false
	}
	if f.V2 {
		want := byte(0)
		if c.key != nil {
			want = ref.IncompatSigned
		}
		if f.Compat != 0 || f.Incompat != want {
			dsim.Failf("originated-flags", "%s: frame %d has incompat=%02x compat=%02x, expected %02x/00", c.name, i, f.Incompat, f.Compat, want)
			return false
		}
		if c.key != nil && f.ComputeSignature(*c.key) != f.Signature {
			dsim.Failf("originated-flags", "%s: frame %d is not validly signed", c.name, i)
			return false
		}
	}
	d := ref.DefByID(ref.HarnessDefs, f.MsgID)
	if d == nil {
		dsim.Failf("originated-checksum", "%s: frame %d carries message id %d which is not in the dialect", c.name, i, f.MsgID)
		return false
	}
	if f.ComputeChecksum(d.CRCExtra()) != f.Checksum {
		dsim.Failf("originated-checksum", "%s: frame %d (%s): checksum %04x, correct is %04x", c.name, i, d.Name, f.Checksum, f.ComputeChecksum(d.CRCExtra()))
		return false
	}
	base, _ := d.Sizes()
	if !f.V2 && len(f.Payload) != base {
		dsim.Failf("v1-base-fields", "%s: v1 frame %d (%s) has a payload of %d bytes, the base fields take %d", c.name, i, d.Name, len(f.Payload), base)
		return false
	}
	if f.Seq != c.nextSeq {
		dsim.Failf("sequence-gapless", "%s: originated frame number %d carries sequence number %d, expected %d (0,1,2,... modulo 256 without gap or repeat)", c.name, c.n, f.Seq, c.nextSeq)
		return false
	}
	c.nextSeq++
	c.n++
	return true
}

func c09Writers() {
	v2 := dsim.Choose(2) == 0
	useStream := dsim.Choose(2) == 0
	sys := 1 + byte(dsim.Choose(255))
	comp := byte(0)
	if dsim.Choose(2) == 1 {
		comp = byte(dsim.Choose(256))
	}
	var key *[32]byte
	if v2 && dsim.Choose(3) == 0 {
		k := genKey()
		key = &k
	}
	link := genByte()
	cw := &capWriter{failAt: -1}
	var write func(m message.Message) error
	if useStream {
		fw := &frame.Writer{ByteWriter: cw, DialectRW: hd.NewRW()}
		fw.Initialize() //nolint
		ver := streamwriter.V1
		if v2 {
			ver = streamwriter.V2
		}
		sw := &streamwriter.Writer{FrameWriter: fw, Version: ver, SystemID: sys, ComponentID: comp, SignatureLinkID: link, Key: key32(key)}
		if err := sw.Initialize(); err != nil {
			dsim.Failf("init", "streamwriter: %v", err)
			return
		}
		write = sw.Write
	} else {
		ver := frame.V1
		if v2 {
			ver = frame.V2
		}
		fw := &frame.Writer{ByteWriter: cw, DialectRW: hd.NewRW(), OutVersion: ver, OutSystemID: sys, OutComponentID: comp,
			OutSignatureLinkID: link, OutKey: key32(key)}
		if err := fw.Initialize(); err != nil {
			dsim.Failf("init", "frame.Writer: %v", err)
			return
		}
		write = fw.WriteMessage
	}
	n := 1 + dsim.Choose(40)
	if dsim.Choose(3) == 0 {
		n = 257 + dsim.Choose(500)
	}
	accepted := 0
	rejected := 0
	for i := 0; i < n; i++ {
		if dsim.Choose(6) == 0 {
			// a write that must be refused, leaving no trace
			before := len(cw.all)
			var err error
			what := ""
			switch dsim.Choose(4) {
			case 0:
				what = "raw message with an id outside the dialect"
				err = write(&message.MessageRaw{ID: 5000 + uint32(dsim.Choose(100)), Payload: genBytes(dsim.Choose(8))})
			case 1:
				what = "decoded message whose id is not in the dialect"
				err = write(&notInDialect{})
			case 2:
				what = "nil message"
				err = write(nil)
			case 3:
				if v2 {
					continue
				}
				what = "message id 70000 on a v1 link"
				err = write(&hd.MessageVerifHi{X: 1, Y: 2})
			}
			rejected++
			count("fault:rejected-write")
			if err == nil {
				dsim.Failf("rejected-write", "write %d (%s) was accepted", i, what)
				return
			}
			if len(cw.all) != before {
				dsim.Failf("rejected-write", "write %d (%s) was refused (%v) but put %d bytes on the link", i, what, err, len(cw.all)-before)
				return
			}
			continue
		}
		var d *ref.MsgDef
		for {
			d = ref.HarnessDefs[dsim.Choose(len(ref.HarnessDefs))]
			if v2 || d.ID <= 255 {
				break
			}
		}
		vals := genValues(d)
		var m message.Message = hd.FromValues(d, vals)
		if dsim.Choose(4) == 0 {
			m = &message.MessageRaw{ID: d.ID, Payload: d.Encode(vals, v2)} // already encoded
		}
		if err := write(m); err != nil {
			dsim.Failf("originated-accept", "write %d of %s refused: %v", i, d.Name, err)
			return
		}
		accepted++
	}
	frames, _, rest, err := ref.ParseStream(cw.all)
	if err != nil || len(rest) != 0 {
		dsim.Failf("originated-checksum", "output is not a clean frame sequence: %v rest=%d", err, len(rest))
		return
	}
	if len(frames) != accepted {
		dsim.Failf("sequence-gapless", "%d accepted writes, %d frames on the link", accepted, len(frames))
		return
	}
	c := &originatedChecker{name: fmt.Sprintf("writer(stream=%v)", useStream), sys: sys, comp: comp, v2: v2, key: key}
	if comp == 0 {
		c.comp = 1
	}
	for i, f := range frames {
		if !c.check(i, f) {
			return
		}
		if key != nil && f.LinkID != link {
			dsim.Failf("originated-flags", "frame %d carries link id %d, configured %d", i, f.LinkID, link)
			return
		}
	}
	dsim.Record("writes", fmt.Sprintf("stream=%v v2=%v key=%v sys=%d comp=%d", useStream, v2, key != nil, sys, comp), nil, int64(accepted), int64(rejected))
}

func c09Init() {
	// initialisation matrix: missing version, zero system id, key with v1 are refused
	ver := dsim.Choose(3)       // 0 missing, 1, 2
	sys := byte(dsim.Choose(3)) // 0, 1, 2
	withKey := dsim.Choose(2) == 1
	shouldFail := ver == 0 || sys == 0 || (withKey && ver == 1)
	var key *[32]byte
	if withKey {
		k := genKey()
		key = &k
	}
	count("cov:init-matrix")
	// streamwriter
	fw := &frame.Writer{ByteWriter: &capWriter{failAt: -1}, DialectRW: hd.NewRW()}
	fw.Initialize() //nolint
	sw := &streamwriter.Writer{FrameWriter: fw, Version: streamwriter.Version(ver), SystemID: sys, Key: key32(key)}
	err := sw.Initialize()
	if (err != nil) != shouldFail {
		dsim.Failf("init-refused", "streamwriter.Writer{Version:%d SystemID:%d Key:%v}.Initialize() = %v, expected failure=%v", ver, sys, withKey, err, shouldFail)
		return
	}
	if err == nil && sw.ComponentID != 1 {
		dsim.Failf("init-refused", "component id left unset became %d, expected 1", sw.ComponentID)
		return
	}
	// node
	e := newEnv(&nodeCfg{version: ver, sysID: sys, outKey: key, hbDisable: true})
	e.addEndpoint(epCustom)
	e.node = e.buildNode()
	e.node.OutVersion = gomavlib.Version(ver)
	err = e.node.Initialize()
	if (err != nil) != shouldFail {
		dsim.Failf("init-refused", "Node{OutVersion:%d OutSystemID:%d OutKey:%v}.Initialize() = %v, expected failure=%v", ver, sys, withKey, err, shouldFail)
	}
	if err == nil {
		if e.node.OutComponentID != 1 {
			dsim.Failf("init-refused", "node component id left unset became %d, expected 1", e.node.OutComponentID)
		}
		e.node.Close()
	}
	dsim.Record("init", fmt.Sprintf("ver=%d sys=%d key=%v fail=%v", ver, sys, withKey, shouldFail), nil)
}

// checkOriginatedLinks: on every stable link the originated frames (application messages,
// heartbeats, stream requests) carry the node's identity and gapless sequence numbers.
func checkOriginatedLinks(e *env, stable, churn []*link, items [][]fanItem) {
	for _, l := range append(append([]*link(nil), stable...), churn...) {
		frames, _, _, err := ref.ParseStream(l.wire())
		if err != nil {
			dsim.Failf("originated-checksum", "%s: the outgoing byte stream is not a clean concatenation of frames: %v", l.name, err)
			return
		}
		c := &originatedChecker{name: l.name, sys: e.cfg.sysID, comp: e.cfg.effCompID(), v2: e.cfg.version == 2, key: e.cfg.outKey}
		var linkID byte
		nhb, nsr := 0, 0
		for i, f := range frames {
			// forwarded frames carry the foreign identity the writers gave them
			if wr, op, _, ok := tagOf(f); ok && (wr < 100 || wr == 250) && op >= opFrameAll {
				continue
			}
			if l.lossy && f.Seq != c.nextSeq && f.Seq == 0 {
				// the link's channel was replaced (transient failure of a custom transport): the
				// fresh channel has its own counter and its own signature link id
				c.nextSeq, c.n = 0, 0
			}
			if !c.check(i, f) {
				return
			}
			if e.cfg.outKey != nil {
				if c.n == 1 {
					linkID = f.LinkID
				} else if f.LinkID != linkID {
					dsim.Failf("originated-flags", "%s: signature link id changes on one link: %d then %d", l.name, linkID, f.LinkID)
					return
				}
			}
			switch f.MsgID {
			case 0:
				nhb++
			case 66:
				nsr++
			}
		}
		if c.n > 256 {
			count("cov:sequence-wrapped")
		}
		if nsr > 0 {
			count("cov:stream-requests-in-sequence")
		}
		if nhb > 0 {
			count("cov:heartbeats-in-sequence")
		}
	}
}

func c09Body() func(h []dsim.Rec) {
	switch dsim.Choose(6) {
	case 0:
		c09Init()
		return nil
	case 1, 2:
		return fanoutRun(fanOpt{manyOps: dsim.Choose(2) == 0, rejected: true, streamReq: true, check: checkOriginatedLinks})
	}
	c09Writers()
	return nil
}

func init() {
	register(&Prop{
		ID:       "C09",
		MaxSteps: 3000000,
		Horizon:  40 * 365 * 24 * time.Hour,
		Body:     c09Body,
		Rule: "one evaluation = one of: (a) a history of 1..760 writes through streamwriter.Writer or frame.Writer.WriteMessage (v1/v2, " +
			"key, component id set/unset; decoded and raw messages; rejected writes - id outside the dialect, foreign type, nil, id 70000 " +
			"on v1 - interleaved at drawn positions) with every emitted frame checked by the reference; (b) one cell of the " +
			"initialisation matrix (version missing/1/2 x system id 0/1/2 x key) for streamwriter.Writer and Node; (c) a whole node with " +
			"1..6 channels, 1..4 concurrent writers (up to 400 writes each incl. rejected ones), heartbeats, stream requests answering " +
			"ArduPilot peers and forwarded frames, with the per-link sequence oracle on every wire log; distinct = distinct history " +
			"digest; non-trivial = at least 3 accepted writes or an initialisation verdict",
		Nontrivial: func(r *dsim.Result) bool {
			n := 0
			for _, rec := range r.History {
				switch rec.Kind {
				case "writes":
					return rec.I[0] >= 3
				case "init":
					return true
				case "submit":
					n++
				}
			}
			return n >= 3
		},
		ProbeUniverse: []string{"fault:rejected-write", "cov:init-matrix", "cov:sequence-wrapped", "cov:stream-requests-in-sequence", "cov:heartbeats-in-sequence"},
		Real:          []string{"pkg/streamwriter", "pkg/frame.Writer", "gomavlib (Node, Channel, heartbeat, stream requests; instrumented)", "pkg/dialect", "pkg/message"},
		Stub:          []string{"byte link", "goroutine scheduler (dsim)", "clock (synctest)", "net sockets, pion UDP listener, serial port", "reference codec as oracle"},
	})
}
