package props

import (
	"fmt"
	"io"
	"time"

	"github.com/bluenviron/gomavlib/v3/pkg/frame"
	"github.com/bluenviron/gomavlib/v3/pkg/streamwriter"

	"verif/dsim"
	"verif/hd"
	"verif/ref"
)

// C06 — link signing. An altered or forged frame is an adversarial link fault: reference-signed
// frames pass through a tampering link (every single-bit flip enumerated; v1, unsigned, wrong-key
// and forged-signature frames injected) into the real keyed reader. Writer side: the real
// frame.Writer.WriteMessage and streamwriter.Writer with a key; every emitted frame is verified
// with the reference SHA-256 formula. (Node-level signing is covered by the node scenarios.)
//
// Timestamps increase within a run so that the replay window (C07) does not interfere.

// authentic: the reference verdict on a span as received.
func authentic(span []byte, key [32]byte, withDialect bool) bool {
	f, n, err := ref.Decode(span)
	if err != nil || n != len(span) || !f.V2 || f.Incompat != ref.IncompatSigned {
		return false
	}
	if f.ComputeSignature(key) != f.Signature {
		return false
	}
	if withDialect {
		if d := ref.DefByID(ref.HarnessDefs, f.MsgID); d != nil && f.ComputeChecksum(d.CRCExtra()) != f.Checksum {
			return false
		}
	}
	return true
}

func c06Reader() {
	withDialect := dsim.Choose(2) == 1
	key := genKey()
	cfg := readerCfg{key: frame.NewV2Key(key[:])}
	if withDialect {
		cfg.drw = hd.NewRW()
	}
	ts := uint64(3_000_000) + genUint(40)
	mk := func() *ref.Frame {
		var f *ref.Frame
		var d *ref.MsgDef
		if withDialect && dsim.Choose(3) != 2 {
			var vals ref.Values
			f, d, vals = genDialectFrame(true)
			if dsim.Choose(2) == 1 {
				// a sender that does not truncate, pads, or leaves bytes after a string's NUL: the
				// signature covers the bytes as sent
				var canon bool
				f.Payload, canon, _ = genEncoding(d, vals, true)
				if !canon {
					count("cov:signed-non-canonical-payload")
				}
			}
		} else {
			f = genRawFrame(true, false)
			for withDialect && ref.DefByID(ref.HarnessDefs, f.MsgID) != nil {
				f.MsgID++
			}
		}
		ts += 1 + uint64(dsim.Choose(50000))
		signValid(f, d, key, genByte(), ts)
		return f
	}
	// soundness over any stream: whatever is delivered must be authentic as received
	sound := func(data []byte, res []rdResult) bool {
		for _, r := range res {
			if r.kind == 0 && !authentic(data[r.from:r.to], key, withDialect) {
				dsim.Failf("sign-sound", "a frame that is not validly signed under the configured key was delivered: span %s (stream %s)",
					hexs(data[r.from:r.to]), hexs(data))
				return false
			}
		}
		return true
	}
	f := mk()
	good := f.Encode()
	dsim.Record("signed", fmt.Sprintf("dialect=%v %x", withDialect, good), nil, int64(len(good)))
	// every single-bit flip, each followed by a fresh valid frame (which must still get through
	// whenever the damaged bytes are consumed as one unit)
	flips := 0
	for off := 0; off < len(good); off++ {
		for bit := 0; bit < 8; bit++ {
			bad := append([]byte(nil), good...)
			bad[off] ^= 1 << uint(bit)
			flips++
			res, ok := readAll("C06", bad, 0, len(bad), io.EOF, cfg)
			if !ok || !sound(bad, res) {
				return
			}
			for _, r := range res {
				if r.kind == 0 {
					dsim.Failf("sign-tamper", "bit %d of byte %d flipped after signing and the frame was still delivered: %s", bit, off, hexs(bad))
					return
				}
			}
		}
	}
	count("fault:single-bit-tamper")
	// a mixed stream: valid frames and forgeries, the reader is one long-lived keyed reader
	var data []byte
	var expect []bool // per segment that is a whole frame: delivered?
	var spans [][2]int
	nseg := 2 + dsim.Choose(8)
	for i := 0; i < nseg; i++ {
		var b []byte
		deliver := false
		switch dsim.Choose(8) {
		case 0, 1:
			b = mk().Encode()
			deliver = true
		case 7: // padded after signing by someone without the key: zero bytes appended, length and checksum adjusted
			g := mk()
			d := ref.DefByID(ref.HarnessDefs, g.MsgID)
			if !withDialect || d == nil || len(g.Payload) >= 255 {
				g.Timestamp += 1 + uint64(dsim.Choose(1000))
				count("fault:restamped")
			} else {
				g.Payload = append(append([]byte(nil), g.Payload...), make([]byte, 1+dsim.Choose(255-len(g.Payload)))...)
				g.Checksum = g.ComputeChecksum(d.CRCExtra())
				count("fault:padded-after-signing")
			}
			b = g.Encode()
		case 2: // v1 frame
			g := genRawFrame(false, false)
			for withDialect && ref.DefByID(ref.HarnessDefs, g.MsgID) != nil {
				g.MsgID = (g.MsgID + 13) & 0xFF
			}
			b = g.Encode()
			count("fault:v1-on-signed-link")
		case 3: // unsigned v2
			g, d, _ := genDialectFrame(true)
			_ = d
			b = g.Encode()
			count("fault:unsigned-v2")
		case 4: // signed with another key
			g := mk()
			other := genKey()
			other[0] ^= 0xA5
			if other == key {
				other[1] ^= 1
			}
			g.Signature = g.ComputeSignature(other)
			b = g.Encode()
			count("fault:wrong-key")
		case 5: // signature bytes replaced
			g := mk()
			sig := g.Signature
			for sig == g.Signature {
				copy(g.Signature[:], genBytes(6))
			}
			if dsim.Choose(2) == 1 {
				g.Timestamp += uint64(1_000_001 + dsim.Choose(2_000_000_000)) // forged and dated ahead
			}
			b = g.Encode()
			count("fault:forged-signature")
		case 6: // re-stamped: timestamp or link id changed after signing
			g := mk()
			if dsim.Choose(2) == 0 {
				g.Timestamp += 1 + uint64(dsim.Choose(1000))
			} else {
				g.LinkID ^= byte(1 + dsim.Choose(255))
			}
			b = g.Encode()
			count("fault:restamped")
		}
		spans = append(spans, [2]int{len(data), len(data) + len(b)})
		expect = append(expect, deliver)
		data = append(data, b...)
	}
	res, ok := readAll("C06", data, dsim.Choose(3), len(data), io.EOF, cfg)
	if !ok || !sound(data, res) {
		return
	}
	// every segment is consumed as exactly one call (whole frames): authentic ones delivered, others parse errors
	idx := 0
	for _, r := range res {
		if r.kind == 2 {
			break
		}
		if idx >= len(spans) || r.from != spans[idx][0] || r.to != spans[idx][1] {
			dsim.Failf("sign-complete", "segment %d [%d,%d) was consumed as [%d,%d) (%s)", idx, spans[idx][0], spans[idx][1], r.from, r.to, describe(r))
			return
		}
		if (r.kind == 0) != expect[idx] {
			dsim.Failf("sign-complete", "segment %d: delivered=%v, expected %v (%s); bytes %s", idx, r.kind == 0, expect[idx], describe(r), hexs(data[r.from:r.to]))
			return
		}
		idx++
	}
	if idx != len(spans) {
		dsim.Failf("sign-complete", "%d segments sent, %d results", len(spans), idx)
	}
	dsim.Record("flips", "", nil, int64(flips))
}

// writer side -------------------------------------------------------------------------------

func verifyOutgoing(oracle string, b []byte, key [32]byte, link byte) (frames []*ref.Frame, ok bool) {
	frames, _, rest, err := ref.ParseStream(b)
	if err != nil || len(rest) != 0 {
		dsim.Failf(oracle, "output is not a clean sequence of frames: %v rest=%d", err, len(rest))
		return nil, false
	}
	for i, f := range frames {
		if !f.V2 || f.Incompat != ref.IncompatSigned {
			dsim.Failf(oracle, "frame %d written with an outgoing key is not a signed v2 frame: %s", i, f)
			return nil, false
		}
		if f.LinkID != link {
			dsim.Failf(oracle, "frame %d carries link id %d, configured %d", i, f.LinkID, link)
			return nil, false
		}
		if f.ComputeSignature(key) != f.Signature {
			dsim.Failf(oracle, "frame %d: signature %x does not verify under the outgoing key (reference %x): %s", i, f.Signature, f.ComputeSignature(key), f)
			return nil, false
		}
		d := ref.DefByID(ref.HarnessDefs, f.MsgID)
		if d == nil || f.ComputeChecksum(d.CRCExtra()) != f.Checksum {
			dsim.Failf(oracle, "frame %d: checksum wrong for the signed frame: %s", i, f)
			return nil, false
		}
	}
	return frames, true
}

func c06Writer() {
	key := genKey()
	link := genByte()
	n := 1 + dsim.Choose(12)
	useStream := dsim.Choose(2) == 0
	cw := &capWriter{failAt: -1}
	var write func(m *ref.MsgDef, vals ref.Values) error
	if useStream {
		fw := &frame.Writer{ByteWriter: cw, DialectRW: hd.NewRW()}
		if err := fw.Initialize(); err != nil {
			dsim.Failf("init", "%v", err)
			return
		}
		sw := &streamwriter.Writer{FrameWriter: fw, Version: streamwriter.V2, SystemID: 1 + byte(dsim.Choose(255)), ComponentID: genByte(),
			SignatureLinkID: link, Key: frame.NewV2Key(key[:])}
		if err := sw.Initialize(); err != nil {
			dsim.Failf("init", "%v", err)
			return
		}
		write = func(d *ref.MsgDef, vals ref.Values) error { return sw.Write(hd.FromValues(d, vals)) }
	} else {
		fw := &frame.Writer{ByteWriter: cw, DialectRW: hd.NewRW(), OutVersion: frame.V2, OutSystemID: 1 + byte(dsim.Choose(255)),
			OutComponentID: genByte(), OutSignatureLinkID: link, OutKey: frame.NewV2Key(key[:])}
		if err := fw.Initialize(); err != nil {
			dsim.Failf("init", "%v", err)
			return
		}
		write = func(d *ref.MsgDef, vals ref.Values) error { return fw.WriteMessage(hd.FromValues(d, vals)) }
	}
	for i := 0; i < n; i++ {
		d := ref.HarnessDefs[dsim.Choose(len(ref.HarnessDefs))]
		vals := genValues(d)
		if dsim.Choose(4) == 0 {
			// the longest frame there is: 255 payload bytes that truncation cannot shorten, signed
			d = ref.DefByID(ref.HarnessDefs, 184)
			vals = genValues(d)
			last := vals[len(vals)-1].Elems
			last[len(last)-1] = uint64(1 + dsim.Choose(255))
			count("cov:signed-maximum-length-frame")
		}
		if err := write(d, vals); err != nil {
			dsim.Failf("sign-writer", "write %d of %s refused: %v", i, d.Name, err)
			return
		}
		if dsim.Choose(3) == 0 {
			dsim.Sleep(dsim.Pick(time.Duration(0), 3*time.Millisecond, 17*time.Second)) // time passes between writes
		}
	}
	frames, ok := verifyOutgoing("sign-writer", cw.all, key, link)
	if ok && len(frames) != n {
		dsim.Failf("sign-writer", "%d messages written, %d frames on the link", n, len(frames))
	}
	dsim.Record("signed-out", fmt.Sprintf("stream=%v %x", useStream, cw.all), nil, int64(n))
}

func c06Body() func(h []dsim.Rec) {
	switch dsim.Choose(7) {
	case 2, 5:
		c06Writer()
	case 6:
		// node level: a real node with an incoming key (any outgoing version), peers sending
		// authentic frames, frames with a damaged signature (some dated ahead) and junk; only
		// authenticated frames may surface as frame events (the C10 event-stream oracles)
		count("cov:keyed-node")
		return eventStreamRun(true)
	default:
		c06Reader()
	}
	return nil
}

func init() {
	register(&Prop{
		ID:       "C06",
		MaxSteps: 400000,
		Horizon:  40 * 365 * 24 * time.Hour,
		Body:     c06Body,
		Rule: "one evaluation = either (reader) one reference-signed frame read by the real keyed reader under EVERY single-bit flip plus " +
			"a mixed stream of authentic frames and forgeries (v1, unsigned v2, wrong key, replaced signature, re-stamped) with a " +
			"reference SHA-256 verdict per segment, or (writer) 1..12 messages written through streamwriter.Writer / " +
			"frame.Writer.WriteMessage with an outgoing key and verified by the reference; distinct = distinct history digest; " +
			"non-trivial = at least 100 tampered variants were evaluated or at least 2 frames were written",
		Nontrivial: func(r *dsim.Result) bool {
			for _, rec := range r.History {
				if (rec.Kind == "flips" && rec.I[0] >= 100) || (rec.Kind == "signed-out" && rec.I[0] >= 2) || (rec.Kind == "evt" && rec.I[0] == evFrame) {
					return true
				}
			}
			return false
		},
		ProbeUniverse: []string{"fault:padded-after-signing", "cov:signed-non-canonical-payload", "fault:single-bit-tamper", "fault:v1-on-signed-link", "fault:unsigned-v2", "fault:wrong-key", "fault:forged-signature", "fault:restamped"},
		Real:          []string{"pkg/frame (Reader with InKey, Writer.WriteMessage with OutKey)", "pkg/streamwriter", "pkg/dialect", "pkg/message"},
		Stub:          []string{"tampering link", "fake clock (synctest)", "reference SHA-256 signature as oracle"},
	})
}
