package props

import (
	"errors"
	"fmt"
	"io"
	"strconv"
	"strings"
	"time"

	"github.com/bluenviron/gomavlib/v3"
	"github.com/bluenviron/gomavlib/v3/pkg/message"

	"verif/dsim"
	"verif/hd"
	"verif/ref"
	"verif/world"
)

// C10 — per-channel event stream: open first, close last, frames lossless and in order.
//
// Simulated system: a real node with 1..3 endpoints (custom, TCP server, TCP client, UDP
// server, serial), peers that send scripted mixes of valid frames, complete frames with a wrong
// checksum or signature and non-marker junk in arbitrary chunks with pauses, that disconnect
// (FIN / RST / unplug) and reconnect; a fast / slow / bursty event consumer; concurrent
// writers and heartbeats; node Close in some runs. Lossless transports only.
//
// Not demanded: how many parse-error events a piece of rejected input produces; a close event
// when the node itself is closed first; anything about channels whose peer never sent a
// datagram.

// chanLink maps every channel the application has seen to the peer link behind it.
func (e *env) chanLinks(events []obs) map[*gomavlib.Channel]*link {
	out := map[*gomavlib.Channel]*link{}
	opensPerEp := map[int]int{}
	links := e.allLinks()
	for _, o := range events {
		if o.kind != evOpen {
			continue
		}
		if _, done := out[o.ch]; done {
			continue
		}
		epi := e.epIndex(o.ch.Endpoint().Conf())
		if epi < 0 {
			continue
		}
		ep := e.cfg.eps[epi]
		k := opensPerEp[epi]
		opensPerEp[epi]++
		var found *link
		switch ep.kind {
		case epCustom:
			for _, l := range links {
				if l.ep == ep {
					found = l
					break
				}
			}
		case epTCPServer, epUDPServer:
			label := o.ch.String()
			i := strings.LastIndexByte(label, ':')
			port, _ := strconv.Atoi(label[i+1:])
			for _, l := range links {
				if l.ep == ep && l.nodePort == port {
					found = l
				}
			}
		case epTCPClient, epSerial:
			key := ep.addr
			if ep.kind == epSerial {
				key = ep.device
				k++ // the first open of the device is the existence test of Initialize
			}
			ncs := e.w.NodeConnsFor(key)
			if k < len(ncs) {
				for _, l := range links {
					if l.ep == ep && l.conn != nil && l.conn.ID == ncs[k].ID {
						found = l
					}
				}
			}
		case epUDPClient:
			ncs := e.w.NodeConnsFor(ep.addr)
			if k < len(ncs) {
				for _, l := range links {
					if l.ep == ep && l.nodePort == ncs[k].Port {
						found = l
					}
				}
			}
		case epBroadcast:
			for _, l := range links {
				if l.ep == ep {
					found = l
					break
				}
			}
		}
		if found != nil {
			out[o.ch] = found
		}
	}
	return out
}

// frameTag extracts the tag of a frame event (decoded or raw message).
func frameTag(o *obs, v2 bool) (writer byte, index uint32, ok bool) {
	switch m := o.fr.GetMessage().(type) {
	case *hd.MessageVerifTag:
		return m.Writer, m.Index, true
	case *message.MessageRaw:
		if m.ID != ref.DefTag.ID {
			return 0, 0, false
		}
		vals, err := ref.DefTag.Decode(m.Payload, v2)
		if err != nil {
			return 0, 0, false
		}
		return byte(vals[0].Elems[0]), uint32(vals[2].Elems[0]), true
	}
	return 0, 0, false
}

// checkEventStream evaluates the C10 oracles over the consumer's log.
type streamOpts struct {
	nodeClosedAt   time.Duration // 0 = not closed before the check
	consumerAlive  bool
	lossless       bool
	lossyDatagrams bool // datagram links lose, duplicate, reorder and corrupt: soundness only
	history        []dsim.Rec
	asOf           time.Duration // when the events were snapshot (0 = end of run): later sends do not count
	stalls         bool          // stall injection was on: relations between instants of different tasks are void
}

func (e *env) checkEventStream(events []obs, opt streamOpts) {
	type chState struct {
		opens, closes int
		afterClose    int
		first         int
		frames        []*obs
		perrs         int
		closeErr      error
	}
	st := map[*gomavlib.Channel]*chState{}
	var order []*gomavlib.Channel
	for i := range events {
		o := &events[i]
		if o.ch == nil {
			dsim.Failf("event-stream", "event %d (%s) carries a nil channel", i, evNames[o.kind])
			return
		}
		s := st[o.ch]
		if s == nil {
			s = &chState{first: o.kind}
			st[o.ch] = s
			order = append(order, o.ch)
		}
		if s.closes > 0 {
			s.afterClose++
		}
		switch o.kind {
		case evOpen:
			s.opens++
		case evClose:
			s.closes++
			s.closeErr = o.err
		case evFrame:
			s.frames = append(s.frames, o)
		case evParseErr:
			s.perrs++
		}
	}
	links := e.chanLinks(events)
	customSeen := map[*link]bool{}
	chansOfLink := map[*link]int{}
	for _, ch := range order {
		if l := links[ch]; l != nil {
			chansOfLink[l]++
		}
	}
	for ci, ch := range order {
		s := st[ch]
		name := fmt.Sprintf("channel %d (%s)", ci, ch.String())
		if s.first != evOpen {
			dsim.Failf("open-first", "%s: the first event is %s, not the open event", name, evNames[s.first])
			return
		}
		if s.opens != 1 {
			dsim.Failf("open-first", "%s: %d open events", name, s.opens)
			return
		}
		if s.closes > 1 {
			dsim.Failf("close-last", "%s: %d close events", name, s.closes)
			return
		}
		if s.afterClose > 0 {
			dsim.Failf("close-last", "%s: %d event(s) arrived after its close event", name, s.afterClose)
			return
		}
		l := links[ch]
		if l == nil {
			if len(s.frames) > 0 {
				dsim.Failf("attribution", "%s delivered %d frames but no peer is connected to it", name, len(s.frames))
				return
			}
			continue
		}
		// frames: exactly the valid frames sent on that transport, in order, attributed to it
		var want []sentItem
		complete := 0
		bad := 0
		for _, it := range l.sent {
			if it.kind == sendValid {
				want = append(want, it)
				if it.done && (opt.asOf == 0 || it.tDone < opt.asOf) {
					complete++
				}
			} else {
				bad++
			}
		}
		// heartbeats that peers send to announce themselves are not part of the tagged sequence
		tagged := s.frames[:0:0]
		for _, o := range s.frames {
			if o.fr.GetMessage().GetID() != 0 {
				tagged = append(tagged, o)
			}
		}
		s.frames = tagged
		if l.datagram && chansOfLink[l] > 1 && !opt.lossyDatagrams {
			// the peer's channel was expired and the peer came back on a new one: each channel carries
			// an in-order part of what the peer sent (what arrives around the expiry may be lost)
			last := int64(-1)
			for k, o := range s.frames {
				wr, idx, ok := frameTag(o, l.v2)
				if !ok || wr != byte(100+l.id) || o.sys != l.sys {
					dsim.Failf("attribution", "%s: frame event %d is not one of peer %s", name, k, l.name)
					return
				}
				if int64(idx) <= last {
					dsim.Failf("frames-lossless", "%s: frame event %d carries index %d after index %d (duplicated or reordered)", name, k, idx, last)
					return
				}
				last = int64(idx)
			}
			continue
		}
		if opt.lossyDatagrams && l.datagram {
			// soundness under loss / duplication / reordering / corruption: whatever surfaces as a
			// frame event is a frame this peer really sent, bit for bit
			for k, o := range s.frames {
				if _, raw := o.fr.GetMessage().(*message.MessageRaw); raw && e.cfg.inKey == nil {
					// without a key, a frame whose (possibly damaged) id is outside the dialect cannot be
					// validated by anybody and is passed on undecoded: that is not a decoded message
					continue
				}
				wr, idx, ok := frameTag(o, l.v2)
				var it *sentItem
				for i := range want {
					if ok && want[i].index == idx {
						it = &want[i]
					}
				}
				if !ok || it == nil || wr != byte(100+l.id) || o.sys != l.sys || o.comp != l.comp || o.fr.GetSequenceNumber() != it.f.Seq {
					dsim.Failf("datagram-sound", "%s: frame event %d (tag %d index %d sys %d seq %d) is not a frame the peer %s sent: damaged input was delivered", name, k, wr, idx, o.sys, o.fr.GetSequenceNumber(), l.name)
					return
				}
			}
			continue
		}
		for k, o := range s.frames {
			wr, idx, ok := frameTag(o, l.v2)
			if !ok {
				dsim.Failf("frames-lossless", "%s: frame event %d is not one the peer sent (id %d)", name, k, o.fr.GetMessage().GetID())
				return
			}
			if k >= len(want) {
				dsim.Failf("frames-lossless", "%s: %d frame events but the peer %s sent only %d valid frames (extra: writer %d index %d)", name, len(s.frames), l.name, len(want), wr, idx)
				return
			}
			if wr != byte(100+l.id) || o.sys != l.sys {
				dsim.Failf("attribution", "%s: frame event %d belongs to peer tag %d/sys %d, the channel's peer %s is tag %d/sys %d", name, k, wr, o.sys, l.name, 100+l.id, l.sys)
				return
			}
			if idx != want[k].index {
				dsim.Failf("frames-lossless", "%s: frame event %d carries index %d, the %d-th valid frame sent by %s has index %d (lost, duplicated or reordered)",
					name, k, idx, k, l.name, want[k].index)
				return
			}
			if o.fr.GetSequenceNumber() != want[k].f.Seq {
				dsim.Failf("frames-lossless", "%s: frame event %d has sequence number %d, sent %d", name, k, o.fr.GetSequenceNumber(), want[k].f.Seq)
				return
			}
		}
		// (a frame cut short by the end of its transport is rejected input too)
		if bad == 0 && s.perrs > 0 && opt.nodeClosedAt == 0 && !l.peerClosed && s.closes == 0 {
			dsim.Failf("parse-errors-only-for-rejected", "%s: %d parse-error events although the peer sent only valid frames", name, s.perrs)
			return
		}
		fully := opt.lossless && opt.consumerAlive && (opt.nodeClosedAt == 0) && !l.peerReset && l.txErr == nil && s.closes == 0
		// a channel that reports EOF has read its transport to the end: whatever the peer had sent
		// before it closed must have surfaced before the close event (also when the node was
		// closed afterwards). On a custom endpoint this holds for the first channel only: the
		// provider hands the same dead transport out again.
		if opt.lossless && !l.datagram && l.peerClosed && !l.peerReset && l.txErr == nil && s.closes == 1 &&
			errors.Is(s.closeErr, io.EOF) && !(l.ep.kind == epCustom && customSeen[l]) {
			fully = true
		}
		// a stream channel that was expired (read timeout) had consumed everything that had arrived
		// before the deadline fired: a peer's frame completely sent before that instant surfaced
		// (not under stall injection: a reader preempted between arming its deadline and starting the
		// read finds the deadline passed, and a socket then fails the read even with data buffered)
		if opt.lossless && opt.consumerAlive && !opt.stalls && l.conn != nil && s.closes == 1 && isTimeout(s.closeErr) && !l.peerReset {
			var fired time.Duration = -1
			want := l.conn.Peer.Name + " read timeout"
			for _, r := range opt.history {
				if r.Kind == "net" && r.S == want {
					fired = r.T
				}
			}
			if fired >= 0 {
				n := 0
				for _, it := range l.sent {
					if it.kind == sendValid && it.done && it.tDone < fired {
						n++
					}
				}
				if len(s.frames) < n {
					dsim.Failf("frames-lossless", "%s: expired by a read timeout at t=%v although %d valid frames had completely arrived before that instant and only %d had surfaced: data that was already there was thrown away", name, fired, n, len(s.frames))
					return
				}
			}
		}
		if l.ep.kind == epCustom {
			if customSeen[l] {
				continue // re-provided dead custom transport (see C14, not demanded)
			}
			customSeen[l] = true
		}
		if fully && len(s.frames) < complete {
			dsim.Failf("frames-lossless", "%s: the peer %s sent %d valid frames completely, only %d frame events arrived by quiescence (consumer alive, node open)",
				name, l.name, complete, len(s.frames))
			return
		}
		// a channel whose transport ended has its close event (unless the node was closed first)
		if opt.consumerAlive && opt.nodeClosedAt == 0 && l.peerClosed && !l.datagram && s.closes != 1 {
			dsim.Failf("close-delivered", "%s: the peer %s ended the connection but no close event had arrived by quiescence", name, l.name)
			return
		}
	}
	// a channel <-> peer bijection: two channels never share a link
	seen := map[*link]*gomavlib.Channel{}
	for _, ch := range order {
		// (a datagram peer whose channel expired comes back on a new channel)
		if l := links[ch]; l != nil && l.ep.kind != epCustom && !l.datagram {
			if other, dup := seen[l]; dup {
				dsim.Failf("attribution", "channels %s and %s are both attached to peer %s", other.String(), ch.String(), l.name)
				return
			}
			seen[l] = ch
		}
	}
}

// peerScript runs a drawn script on a link.
func (e *env) peerScript(l *link, items int, allowBad bool) {
	split := dsim.Choose(2) == 1
	for i := 0; i < items; i++ {
		dsim.EnsureReleased("script")
		kind := sendValid
		if allowBad {
			switch dsim.Choose(8) {
			case 4:
				if e.cfg.inKey != nil && l.v2 {
					kind = sendV1Plain // cannot be authenticated: rejected like a forgery
				}
			case 5:
				if e.cfg.hasDialect() {
					kind = sendBadChecksum
				}
			case 6:
				if e.cfg.inKey != nil {
					kind = sendBadSignature
				}
			case 7:
				kind = sendJunk
			}
		}
		if l.datagram && kind == sendJunk && dsim.Choose(2) == 0 {
			kind = sendValid
		}
		if e.peerAPHeartbeats && dsim.Choose(4) == 0 {
			// an ArduPilot system announces itself (a new identity each time): the node answers
			// with stream requests from its reader goroutine
			l.apCount++
			if l.sendHeartbeatAs(byte(3+l.apCount*5+l.id), byte(1+l.apCount%3), 3) != nil {
				return
			}
			dsim.EnsureReleased("script")
		}
		if err := l.send(kind, split); err != nil {
			return
		}
		dsim.EnsureReleased("script")
		if dsim.Choose(3) == 0 {
			dsim.Sleep(time.Duration(1+dsim.Choose(300)) * time.Millisecond)
		}
	}
}

type driverSet struct {
	e       *env
	pending int
}

func (d *driverSet) spawn(name string, f func()) {
	d.e.mu.Lock()
	d.pending++
	d.e.mu.Unlock()
	dsim.Go(name, func() {
		defer func() {
			d.e.mu.Lock()
			d.pending--
			d.e.mu.Unlock()
		}()
		f()
	})
}

func (d *driverSet) wait(max time.Duration) bool {
	deadline := d.e.now() + max
	for {
		d.e.mu.Lock()
		p := d.pending
		d.e.mu.Unlock()
		if p == 0 {
			return true
		}
		if d.e.now() > deadline {
			return false
		}
		dsim.Sleep(100 * time.Millisecond)
	}
}

// drivePeers starts the peers of every endpoint with drawn scripts.
func (e *env) drivePeers(d *driverSet, allowBad, allowDisconnect bool, scale int) {
	for _, ep := range e.cfg.eps {
		ep := ep
		switch ep.kind {
		case epCustom:
			l := e.customLink(ep)
			n := dsim.Choose(scale + 1)
			d.spawn("peer-drv", func() { e.peerScript(l, n, allowBad) })
		case epTCPServer, epUDPServer:
			np := 1 + dsim.Choose(3)
			for i := 0; i < np; i++ {
				n := dsim.Choose(scale + 1)
				delay := time.Duration(dsim.Choose(2000)) * time.Millisecond
				end := 0
				if allowDisconnect {
					end = dsim.Choose(3) // 0 stay, 1 close, 2 reset
				}
				d.spawn("peer-drv", func() {
					e.waitStarted() // a datagram sent before the node has bound its port is simply lost
					dsim.Sleep(delay)
					var l *link
					var err error
					if ep.kind == epTCPServer {
						l, err = e.dialTCPPeer(ep)
					} else {
						l, err = e.dialUDPPeer(ep)
					}
					if err != nil {
						dsim.Record("peer-dial-failed", err.Error(), nil)
						return
					}
					e.peerScript(l, n, allowBad)
					dsim.EnsureReleased("peer-end")
					if end != 0 && ep.kind == epTCPServer {
						dsim.Sleep(time.Duration(dsim.Choose(500)) * time.Millisecond)
						l.closeByPeer(end == 2)
					}
				})
			}
		case epTCPClient, epSerial:
			sessions := 1
			if allowDisconnect {
				sessions = 1 + dsim.Choose(3)
			}
			var counts, ends []int
			for i := 0; i < sessions; i++ {
				counts = append(counts, dsim.Choose(scale+1))
				ends = append(ends, 1+dsim.Choose(2))
			}
			d.e.mu.Lock()
			d.pending += sessions
			d.e.mu.Unlock()
			served := 0
			onLink := func(l *link) {
				if ep.kind == epSerial && l.ordinal == 0 {
					return // the existence test of Initialize
				}
				k := served
				served++
				if k >= sessions {
					return
				}
				dsim.Go("peer-drv", func() {
					defer func() {
						d.e.mu.Lock()
						d.pending--
						d.e.mu.Unlock()
					}()
					e.peerScript(l, counts[k], allowBad)
					dsim.EnsureReleased("peer-end")
					if k < sessions-1 {
						dsim.Sleep(time.Duration(dsim.Choose(500)) * time.Millisecond)
						l.closeByPeer(ends[k] == 2)
					}
				})
			}
			if ep.kind == epTCPClient {
				if _, err := e.tcpServerPeer(ep, onLink); err != nil {
					dsim.Failf("harness", "peer listen: %v", err)
				}
			} else {
				e.serialPeer(ep, onLink)
			}
		case epUDPClient, epBroadcast:
			n := dsim.Choose(scale + 1)
			first := true
			if _, err := e.packetPeer(ep, func(l *link) {
				if !first {
					return
				}
				first = false
				d.spawn("peer-drv", func() { e.peerScript(l, n, allowBad) })
			}); err != nil {
				dsim.Failf("harness", "peer packet listen: %v", err)
			}
		}
	}
}

func c10Body() func(h []dsim.Rec) { return eventStreamRun(false) }

// eventStreamRun is the C10 deployment; keyed forces an incoming key (node-level part of C06).
func eventStreamRun(keyed bool) func(h []dsim.Rec) {
	cfg := genNodeCfg()
	if dsim.Choose(5) == 4 {
		cfg.dialectKind = 1
	}
	if dsim.Choose(4) == 3 || keyed {
		k := genKey()
		cfg.inKey = &k
	}
	if dsim.Choose(4) == 3 {
		k := genKey()
		cfg.outKey = &k
		cfg.version = 2
	}
	cfg.hbPeriod = time.Duration(200+dsim.Choose(5000)) * time.Millisecond
	cfg.hbDisable = dsim.Choose(4) == 3
	stalls := dsim.Choose(3) == 2
	if stalls {
		dsim.EnableStalls(1 + dsim.Choose(20))
	}
	cfg.srEnable = dsim.Choose(3) == 2
	cfg.idleTO = dsim.Pick(time.Duration(0), 0, 1500*time.Millisecond, 4*time.Second)
	e := newEnv(cfg)
	e.peerAPHeartbeats = cfg.srEnable && cfg.dialectKind == 0 && cfg.inKey == nil
	e.slowLinks = true
	e.w.ChunkMode = dsim.Choose(3)
	e.w.SendBuf = dsim.Pick(1<<16, 4096, 300)
	neps := 1 + dsim.Choose(depth(3, 5))
	kinds := []int{epCustom, epTCPServer, epTCPClient, epUDPServer, epSerial, epUDPClient, epBroadcast}
	for i := 0; i < neps; i++ {
		e.addEndpoint(kinds[dsim.Choose(len(kinds))])
	}
	// a lossy datagram network (loss, duplication, reordering, corruption) in some runs: only
	// soundness is demanded of datagram channels then
	lossy := false
	for _, ep := range e.cfg.eps {
		if (ep.kind == epUDPServer || ep.kind == epUDPClient || ep.kind == epBroadcast) && dsim.Choose(3) == 2 {
			lossy = true
		}
	}
	if lossy {
		e.w.UDP = world.UDPFaults{LossPm: dsim.Choose(200), DupPm: dsim.Choose(200), DelayPm: dsim.Choose(300), MaxDelay: 2 * time.Second, CorruptPm: dsim.Choose(300)}
		count("cov:lossy-datagram-network")
	}
	// serial peers must be attached before Initialize opens the device
	d := &driverSet{e: e}
	dsim.SetDate(time.Date(2026, 1, 1, 0, 0, 0, 0, time.UTC))
	e.start = time.Now()
	// peers of client-type endpoints listen before the node starts
	cons := &consumer{e: e, pace: dsim.Choose(3)}
	e.cons = cons
	e.drivePeers(d, !lossy, true, depth(12, 30)) // (a corrupting network could "repair" a deliberately damaged frame)
	if err := e.startNode(); err != nil {
		dsim.Failf("harness", "node did not initialise: %v", err)
		return nil
	}
	dsim.Go("consumer", cons.run)
	nw := dsim.Choose(3)
	for i := 0; i < nw; i++ {
		w := &writer{e: e, id: i + 1}
		e.writers = append(e.writers, w)
		k := 1 + dsim.Choose(10)
		d.spawn("writer", func() {
			for j := 0; j < k; j++ {
				dsim.EnsureReleased("writer")
				w.writeOne(opMsgAll, nil, "", dsim.Choose(2) == 1)
				dsim.EnsureReleased("writer")
				dsim.Sleep(time.Duration(dsim.Choose(400)) * time.Millisecond)
			}
		})
	}
	closeEarly := dsim.Choose(5) == 4
	var closedAt time.Duration
	if closeEarly {
		dsim.Sleep(time.Duration(dsim.Choose(6000)) * time.Millisecond)
		closedAt = e.now() + 1
		count("cov:node-closed-midway")
		e.node.Close()
	} else {
		if !d.wait(time.Duration(depth(120, 1200)) * time.Second) {
			dsim.Failf("harness", "peer scripts did not finish")
		}
		e.mu.Lock()
		cons.pace = 0
		e.mu.Unlock()
		dsim.Sleep(5 * time.Second)
		dsim.Settle("quiescence")
	}
	snapshot := cons.snapshot()
	asOf := e.now()
	cStopped, cEnded := cons.state()
	alive := !cStopped && !cEnded
	// the peer of a custom transport ends it (possibly handing over its last bytes together with
	// the EOF). The provider would hand the dead transport out again for ever, so the application
	// closes the node as soon as it learns that the channel is gone.
	nodeClosed := closeEarly
	if !closeEarly && alive && dsim.Choose(3) == 0 {
		var cl *link
		for _, l := range e.allLinks() {
			if l.ep.kind == epCustom {
				cl = l
			}
		}
		if cl != nil {
			count("cov:custom-transport-ended-by-peer")
			for i := 0; i < 1+dsim.Choose(3); i++ {
				if cl.send(sendValid, false) != nil {
					break
				}
			}
			closing := false
			e.mu.Lock()
			cons.onEvent = func(o *obs) {
				if o.kind != evClose {
					return
				}
				e.mu.Lock()
				first := !closing
				closing = true
				e.mu.Unlock()
				if first {
					dsim.Go("closer", func() { e.node.Close() })
				}
			}
			e.mu.Unlock()
			cl.closeByPeer(false)
			dsim.Sleep(3 * time.Second)
			dsim.Settle("after-custom-eof")
			e.mu.Lock()
			nodeClosed = closing
			e.mu.Unlock()
			snapshot = cons.snapshot()
			asOf = e.now()
			closedAt = e.now()
		}
	}
	if !nodeClosed {
		e.node.Close()
	}
	return func(h []dsim.Rec) {
		// events observed up to the quiescent instant are judged for completeness; the full log
		// (including what arrived during Close) for ordering
		e.checkEventStream(snapshot, streamOpts{nodeClosedAt: closedAt, consumerAlive: alive, lossless: true, lossyDatagrams: lossy, history: h, asOf: asOf, stalls: stalls})
		e.checkEventStream(cons.events, streamOpts{nodeClosedAt: 1, consumerAlive: false, lossless: true, lossyDatagrams: lossy, history: h})
	}
}

func init() {
	register(&Prop{
		ID:         "C10",
		MaxSteps:   2000000,
		Horizon:    40 * 365 * 24 * time.Hour,
		Body:       c10Body,
		HangOracle: "",
		Rule: "one evaluation = one simulated deployment: a real node with 1..3 endpoints (custom, TCP server, TCP client, UDP server, " +
			"serial), 1..3 peers per server endpoint and up to 3 successive sessions per client endpoint, each sending a drawn script of " +
			"valid / bad-checksum / bad-signature frames and non-marker junk in drawn chunks with pauses, disconnecting by FIN / RST / " +
			"unplug; a fast, slow or bursty consumer; 0..2 concurrent writers; heartbeats; optional stalls; node Close midway in a fifth of " +
			"the runs; distinct = distinct schedule hash + history digest; non-trivial = at least two tasks interleaved and at least one " +
			"frame event was delivered",
		Nontrivial: func(r *dsim.Result) bool {
			if r.Interleave == 0 {
				return false
			}
			for _, rec := range r.History {
				if rec.Kind == "evt" && rec.I[0] == evFrame {
					return true
				}
			}
			return false
		},
		ProbeUniverse: []string{"fault:peer-bad-checksum", "fault:peer-bad-signature", "fault:peer-junk", "fault:peer-close", "fault:peer-reset", "cov:node-closed-midway"},
		Real:          []string{"gomavlib (Node, Channel, channelProvider, endpoints, heartbeat; instrumented with scheduling points only)", "pkg/frame", "pkg/message", "pkg/dialect", "pkg/streamwriter", "pkg/timednetconn"},
		Stub:          []string{"goroutine scheduler (dsim)", "clock (synctest)", "net sockets, listeners, dialer", "pion UDP listener", "serial port", "crypto/rand"},
	})
}
