package props

import (
	"errors"
	"fmt"
	"io"

	"github.com/bluenviron/gomavlib/v3/pkg/dialect"
	"github.com/bluenviron/gomavlib/v3/pkg/frame"
	"github.com/bluenviron/gomavlib/v3/pkg/message"

	"verif/dsim"
	"verif/hd"
	"verif/ref"
)

// C05 — the frame reader is total, makes progress and resynchronises on arbitrary streams.
//
// Simulated system: the real frame.Reader on a simulated transport that decides the
// segmentation of every Read and injects a transport error or EOF at an arbitrary offset.
//
// Not demanded: a particular resynchronisation after a damaged length byte; anything about
// what a truncated frame at the very end turns into (only totality and progress).

type rdResult struct {
	kind  int // 0 frame, 1 parse error, 2 transport error
	from  int // stream offset at which the call started
	to    int // stream offset after the call
	fr    frame.Frame
	err   error
	descr string
}

type readerCfg struct {
	drw *dialect.ReadWriter
	key *frame.V2Key
}

// readAll runs the real reader over data until the transport's own error comes back.
// Oracles evaluated here: totality (no panic, one of three outcomes), the fatal error is the
// transport's, progress (>= 1 byte per non-fatal call, hence <= n+1 calls).
func readAll(prop string, data []byte, mode int, errAt int, terr error, cfg readerCfg) (res []rdResult, ok bool) {
	return readAllCut(prop, data, mode, 0, errAt, terr, cfg)
}

// readAllCut: mode 3 delivers the stream in two pieces cut at cutAt.
func readAllCut(prop string, data []byte, mode, cutAt int, errAt int, terr error, cfg readerCfg) (res []rdResult, ok bool) {
	cr := &chunkReader{data: data, mode: mode, cutAt: cutAt, err: terr, errAt: errAt}
	rd := &frame.Reader{ByteReader: cr, DialectRW: cfg.drw, InKey: cfg.key}
	if err := rd.Initialize(); err != nil {
		dsim.Failf("reader-init", "%v", err)
		return nil, false
	}
	n := errAt
	if n > len(data) {
		n = len(data)
	}
	pos := 0
	// a delivered frame belongs to the caller: what it says at the instant it is returned is what
	// it still says after the reader has gone on (queued events, delayed forwarding)
	var snaps []string
	stable := func() bool {
		k := 0
		for _, r := range res {
			if r.kind != 0 {
				continue
			}
			if now := frameSnapshot(r.fr); now != snaps[k] {
				dsim.Failf("delivered-stable", "%s: the frame delivered for [%d,%d) changed while the reader read on (chunk mode %d): at delivery %s, at the end of the stream %s",
					prop, r.from, r.to, mode, snaps[k], now)
				return false
			}
			k++
		}
		return true
	}
	for calls := 0; ; calls++ {
		if calls > n+1 {
			dsim.Failf("reader-progress", "%s: more than n+1=%d calls on a stream of %d bytes (chunk mode %d): %s",
				prop, n+1, n, mode, hexs(data))
			return res, false
		}
		var fr frame.Frame
		var err error
		errsBefore := cr.errs
		func() {
			defer func() {
				if r := recover(); r != nil {
					err = fmt.Errorf("PANIC: %v", r)
					dsim.Failf("reader-total", "%s: reader panicked at stream offset %d: %v; stream %s", prop, pos, r, hexs(data))
				}
			}()
			fr, err = rd.Read()
		}()
		failedDuring := cr.errs > errsBefore
		if err != nil && len(err.Error()) > 6 && err.Error()[:6] == "PANIC:" {
			return res, false
		}
		npos := cr.drawn - rd.BufByteReader.Buffered()
		r := rdResult{from: pos, to: npos, fr: fr, err: err}
		var perr frame.ReadError
		switch {
		case err == nil && fr != nil:
			r.kind = 0
		case err != nil && fr == nil && errors.As(err, &perr):
			r.kind = 1
			// a transport that fails (not: ends) while a call is waiting for the rest of a frame:
			// the call reports the transport's own error, it does not pass it off as a parse error
			if failedDuring && terr != io.EOF {
				dsim.Failf("reader-total", "%s: the transport failed with %q during the call at offset %d and the call returned the non-fatal parse error %q (chunk mode %d); stream %s",
					prop, terr, pos, err, mode, hexs(data))
				return res, false
			}
		case err != nil && fr == nil:
			r.kind = 2
			if !errors.Is(err, terr) {
				dsim.Failf("reader-total", "%s: fatal error %q is not the transport's own error %q (offset %d)", prop, err, terr, pos)
				return res, false
			}
		default:
			dsim.Failf("reader-total", "%s: call returned frame=%v err=%v", prop, fr, err)
			return res, false
		}
		if r.kind != 2 && npos <= pos {
			dsim.Failf("reader-progress", "%s: call at offset %d returned %v without consuming a byte (chunk mode %d); stream %s",
				prop, pos, err, mode, hexs(data))
			return res, false
		}
		res = append(res, r)
		if r.kind == 0 {
			snaps = append(snaps, frameSnapshot(fr))
		}
		if r.kind == 2 {
			return res, stable()
		}
		pos = npos
	}
}

// frameSnapshot renders everything a frame object carries (header, checksum, signature block and,
// for an undecoded message, its payload bytes).
func frameSnapshot(fr frame.Frame) string {
	h := headerRef(fr)
	if raw, ok := fr.GetMessage().(*message.MessageRaw); ok {
		return fmt.Sprintf("%s raw=%x", h, raw.Payload)
	}
	return fmt.Sprintf("%s msg=%+v", h, fr.GetMessage())
}

func describe(r rdResult) string {
	switch r.kind {
	case 0:
		if rf, err := toRef(r.fr); err == nil {
			return fmt.Sprintf("F[%d,%d) %x", r.from, r.to, rf.Encode())
		}
		h := headerRef(r.fr)
		return fmt.Sprintf("F[%d,%d) decoded %s %+v", r.from, r.to, h, r.fr.GetMessage())
	case 1:
		return fmt.Sprintf("E[%d,%d) %v", r.from, r.to, r.err)
	}
	return fmt.Sprintf("X[%d] %v", r.from, r.err)
}

type segment struct {
	kind  int
	bytes []byte
	frame *ref.Frame // for valid frames
	def   *ref.MsgDef
	vals  ref.Values
}

// buildStream draws a stream. clean: only valid frames and non-marker junk.
func buildStream(clean bool, withDialect bool, key *[32]byte) (data []byte, segs []segment) {
	nseg := 1 + dsim.Choose(depth(10, 24))
	ts := uint64(2_000_000) + uint64(dsim.Choose(1000))
	for i := 0; i < nseg; i++ {
		kind := 0
		if clean {
			kind = dsim.Choose(2)
		} else {
			kind = dsim.Choose(6)
		}
		var s segment
		s.kind = kind
		mk := func() {
			v2 := key != nil || dsim.Choose(2) == 0
			if withDialect && dsim.Choose(4) != 3 {
				s.frame, s.def, s.vals = genDialectFrame(v2)
			} else {
				s.frame = genRawFrame(v2, false)
				if withDialect {
					for ref.DefByID(ref.HarnessDefs, s.frame.MsgID) != nil {
						s.frame.MsgID = (s.frame.MsgID + 7) & 0xFF
					}
				}
			}
			if key != nil {
				ts += uint64(dsim.Choose(300000))
				signValid(s.frame, s.def, *key, genByte(), ts)
			} else if v2 && dsim.Choose(3) == 0 {
				signValid(s.frame, s.def, genKey(), genByte(), genUint(48))
			}
		}
		switch kind {
		case 0:
			mk()
			s.bytes = s.frame.Encode()
		case 1: // junk without markers
			n := 1 + dsim.Choose(6)
			for k := 0; k < n; k++ {
				b := byte(dsim.Choose(256))
				if b == ref.MarkerV1 || b == ref.MarkerV2 {
					b = 0x55
				}
				s.bytes = append(s.bytes, b)
			}
		case 2: // noise with markers inside
			n := 1 + dsim.Choose(24)
			for k := 0; k < n; k++ {
				switch dsim.Choose(4) {
				case 0:
					s.bytes = append(s.bytes, ref.MarkerV1)
				case 1:
					s.bytes = append(s.bytes, ref.MarkerV2)
				default:
					s.bytes = append(s.bytes, genByte())
				}
			}
		case 3: // truncated frame
			mk()
			b := s.frame.Encode()
			s.bytes = b[:dsim.Choose(len(b))]
			s.frame = nil
		case 4: // damaged frame
			mk()
			b := s.frame.Encode()
			k := dsim.Choose(len(b))
			b[k] ^= byte(1 << uint(dsim.Choose(8)))
			s.bytes = b
			s.frame = nil
		case 5: // unknown incompatibility flags
			mk()
			s.frame.Incompat |= byte(2 + dsim.Choose(254))
			s.frame.V2 = true
			s.bytes = s.frame.Encode()
			s.frame = nil
		}
		segs = append(segs, s)
		data = append(data, s.bytes...)
		if len(data) > 4096 {
			break
		}
	}
	return
}

func c05Body() func(h []dsim.Rec) {
	withDialect := dsim.Choose(2) == 1
	withKey := dsim.Choose(3) == 2
	clean := dsim.Choose(3) == 0
	var cfg readerCfg
	var keyp *[32]byte
	if withDialect {
		cfg.drw = hd.NewRW()
	}
	if withKey {
		k := genKey()
		keyp = &k
		cfg.key = frame.NewV2Key(k[:])
	}
	data, segs := buildStream(clean, withDialect, keyp)
	dsim.Record("stream", fmt.Sprintf("dialect=%v key=%v clean=%v %x", withDialect, withKey, clean, data), nil, int64(len(data)))

	// 1. EOF-terminated, three chunkings: identical result sequences
	var base []string
	var baseRes []rdResult
	for mode := 0; mode < 3; mode++ {
		res, ok := readAll("C05", data, mode, len(data), io.EOF, cfg)
		if !ok {
			return nil
		}
		var d []string
		for _, r := range res {
			d = append(d, describe(r))
		}
		if mode == 0 {
			base, baseRes = d, res
			continue
		}
		if len(d) != len(base) {
			dsim.Failf("chunking-independence", "chunk mode %d gives %d results, all-at-once gives %d; stream %s", mode, len(d), len(base), hexs(data))
			return nil
		}
		for i := range d {
			if d[i] != base[i] {
				dsim.Failf("chunking-independence", "result %d differs: mode %d %q vs all-at-once %q; stream %s", i, mode, d[i], base[i], hexs(data))
				return nil
			}
		}
	}
	// 1b. short streams: EVERY way of cutting the stream in two transport reads
	if len(data) <= depth(420, 1500) {
		for cut := 1; cut < len(data); cut++ {
			res, ok := readAllCut("C05", data, 3, cut, len(data), io.EOF, cfg)
			if !ok {
				return nil
			}
			if len(res) != len(base) {
				dsim.Failf("chunking-independence", "stream cut in two at offset %d gives %d results, in one piece %d; stream %s", cut, len(res), len(base), hexs(data))
				return nil
			}
			for i, r := range res {
				if d := describe(r); d != base[i] {
					dsim.Failf("chunking-independence", "stream cut in two at offset %d: result %d is %q, in one piece %q; stream %s", cut, i, d, base[i], hexs(data))
					return nil
				}
			}
		}
		count("cov:all-two-way-cuts")
	}
	nframes := 0
	// 2. every returned frame corresponds exactly to the bytes consumed by its call
	for _, r := range baseRes {
		if r.kind != 0 {
			continue
		}
		nframes++
		span := data[r.from:r.to]
		rf, n, err := ref.Decode(span)
		if err != nil || n != len(span) {
			dsim.Failf("span-is-frame", "frame returned for span [%d,%d) which the reference does not parse as exactly one frame (%v, n=%d): %s",
				r.from, r.to, err, n, hexs(span))
			return nil
		}
		if got, err := toRef(r.fr); err == nil {
			if !got.Equal(rf) || string(got.Encode()) != string(span) {
				dsim.Failf("span-is-frame", "returned frame %s re-encodes to %s but the consumed bytes are %s", got, hexs(got.Encode()), hexs(span))
				return nil
			}
		} else {
			// decoded by the dialect: header fields must match, the span must be reference-valid
			h := headerRef(r.fr)
			d := ref.DefByID(ref.HarnessDefs, rf.MsgID)
			if d == nil || cfg.drw == nil {
				dsim.Failf("span-is-frame", "decoded message for id %d without dialect entry", rf.MsgID)
				return nil
			}
			if h.V2 != rf.V2 || h.Seq != rf.Seq || h.Sys != rf.Sys || h.Comp != rf.Comp || h.MsgID != rf.MsgID ||
				h.Incompat != rf.Incompat || h.Compat != rf.Compat {
				dsim.Failf("span-is-frame", "header of returned frame %s differs from the consumed bytes %s", h, rf)
				return nil
			}
			if rf.ComputeChecksum(d.CRCExtra()) != rf.Checksum {
				dsim.Failf("span-is-frame", "decoded message delivered for a span whose checksum is wrong: %s", hexs(span))
				return nil
			}
		}
	}
	// 3. clean streams: every frame, in order
	if clean {
		var want []*ref.Frame
		for _, s := range segs {
			if s.kind == 0 {
				want = append(want, s.frame)
			}
		}
		got := 0
		for _, r := range baseRes {
			if r.kind != 0 {
				continue
			}
			if got >= len(want) {
				dsim.Failf("resync-complete", "more frames returned than sent; stream %s", hexs(data))
				return nil
			}
			h := headerRef(r.fr)
			w := want[got]
			if h.V2 != w.V2 || h.Seq != w.Seq || h.Sys != w.Sys || h.Comp != w.Comp || h.MsgID != w.MsgID {
				dsim.Failf("resync-complete", "frame %d: got %s want %s; stream %s", got, h, w, hexs(data))
				return nil
			}
			got++
		}
		if got != len(want) {
			dsim.Failf("resync-complete", "%d valid frames separated by non-marker junk were sent, %d were returned (%v); stream %s",
				len(want), got, base, hexs(data))
			return nil
		}
		count("cov:clean-stream")
	}
	// 4. transport error injected at an arbitrary offset, random chunking
	if len(data) > 0 {
		at := dsim.Choose(len(data) + 1)
		count("fault:transport-error")
		if _, ok := readAll("C05", data, 2, at, errInjected, cfg); !ok {
			return nil
		}
		// ... and, for short streams, at every offset (no draw is spent on this)
		if len(data) <= 160 {
			for at := 0; at <= len(data); at++ {
				if _, ok := readAll("C05", data, at%2, at, errInjected, cfg); !ok {
					return nil
				}
			}
			count("cov:transport-error-at-every-offset")
		}
	}
	if nframes > 0 {
		count("cov:frames-returned")
	}
	return nil
}

func init() {
	register(&Prop{
		ID:       "C05",
		MaxSteps: 1000,
		Body:     c05Body,
		Rule: "one evaluation = one generated byte stream (valid / truncated / damaged frames, noise with markers, unknown flags; " +
			"with/without dialect and key) read by the real frame.Reader under three segmentations (all at once, byte by byte, random " +
			"with zero-length reads) plus one pass with a transport error injected at a drawn offset; distinct = distinct history digest " +
			"(stream bytes + configuration + every draw); non-trivial = the stream made the reader return at least one frame",
		Nontrivial:    func(r *dsim.Result) bool { return r.Probes["cov:frames-returned"] > 0 },
		ProbeUniverse: []string{"fault:transport-error", "fault:zero-length-read", "cov:clean-stream", "cov:frames-returned"},
		Real:          []string{"pkg/frame.Reader", "pkg/dialect", "pkg/message", "pkg/x25"},
		Stub:          []string{"transport (chunkReader: segmentation, EOF, injected error)"},
	})
}
