package props

import (
	"fmt"
	"io"

	"github.com/bluenviron/gomavlib/v3/pkg/dialect"
	"github.com/bluenviron/gomavlib/v3/pkg/frame"
	"github.com/bluenviron/gomavlib/v3/pkg/message"

	"verif/dsim"
	"verif/hd"
	"verif/ref"
)

// C01 — frame wire format and lossless round trip.
//
// Simulated system: the real frame.Writer / frame.Reader / frame.ReadWriter on the two ends of
// a simulated byte link whose other ends are the reference codec. What the simulation adds to
// input generation is the stream seam: a history of frames of varying length through one
// writer (its scratch buffer is reused) and one reader (its bufio window straddles frames)
// under arbitrary segmentation.
//
// Not demanded: behaviour on ill-formed frames (signed flag with a nil signature, payload
// longer than 255 bytes).

type rwPipe struct {
	r io.Reader
	w io.Writer
}

func (p rwPipe) Read(b []byte) (int, error)  { return p.r.Read(b) }
func (p rwPipe) Write(b []byte) (int, error) { return p.w.Write(b) }

func c01Body() func(h []dsim.Rec) {
	withDialect := dsim.Choose(2) == 1
	useRW := dsim.Choose(2) == 1
	var drw *dialect.ReadWriter
	if withDialect {
		drw = hd.NewRW()
	}
	n := 1 + dsim.Choose(24)
	if dsim.Choose(8) == 7 {
		n = 25 + dsim.Choose(depth(16, 120))
	}
	var frames []*ref.Frame
	for i := 0; i < n; i++ {
		v2 := dsim.Choose(2) == 0
		signed := v2 && dsim.Choose(3) == 0
		f := genRawFrame(v2, signed)
		if withDialect {
			// ids outside the dialect: the frame passes through as raw bytes
			for ref.DefByID(ref.HarnessDefs, f.MsgID) != nil {
				f.MsgID++
			}
		}
		frames = append(frames, f)
	}

	// ---- writer side: bytes handed to the byte writer for frame i == ref.Encode(frame i)
	cw := &capWriter{failAt: -1}
	var wr *frame.Writer
	var stream []byte
	for _, f := range frames {
		stream = append(stream, f.Encode()...)
	}
	cr := &chunkReader{data: stream, mode: dsim.Choose(3), err: io.EOF, errAt: len(stream)}
	var rd *frame.Reader
	if useRW {
		rw := &frame.ReadWriter{ByteReadWriter: rwPipe{cr, cw}, DialectRW: drw}
		if err := rw.Initialize(); err != nil {
			dsim.Failf("init", "%v", err)
			return nil
		}
		wr, rd = rw.Writer, rw.Reader
	} else {
		wr = &frame.Writer{ByteWriter: cw, DialectRW: drw}
		if err := wr.Initialize(); err != nil {
			dsim.Failf("init", "%v", err)
			return nil
		}
		rd = &frame.Reader{ByteReader: cr, DialectRW: drw}
		if err := rd.Initialize(); err != nil {
			dsim.Failf("init", "%v", err)
			return nil
		}
	}
	dsim.Record("frames", fmt.Sprintf("dialect=%v rw=%v %x", withDialect, useRW, stream), nil, int64(n))
	for i, f := range frames {
		// now and then a v1 frame the version cannot represent: refused, nothing emitted
		if dsim.Choose(10) == 9 {
			bad := &frame.V1Frame{SequenceNumber: genByte(), SystemID: genByte(), ComponentID: genByte(),
				Message: &message.MessageRaw{ID: 256 + uint32(genUint(16)), Payload: genBytes(genLen())}}
			before := len(cw.writes)
			err := wr.Write(bad)
			count("fault:unrepresentable-v1-frame")
			if err == nil {
				dsim.Failf("v1-id-refused", "a v1 frame with message id %d was accepted by the writer", bad.Message.GetID())
				return nil
			}
			if len(cw.writes) != before {
				dsim.Failf("v1-id-refused", "a refused v1 frame (id %d) still put %d bytes on the link: %s", bad.Message.GetID(),
					len(cw.writes[before]), hexs(cw.writes[before]))
				return nil
			}
		}
		before := len(cw.all)
		nw := len(cw.writes)
		if err := wr.Write(fromRef(f)); err != nil {
			dsim.Failf("writer-layout", "frame %d %s refused: %v", i, f, err)
			return nil
		}
		got := cw.all[before:]
		want := f.Encode()
		if string(got) != string(want) {
			dsim.Failf("writer-layout", "frame %d %s\n wrote %s\n spec  %s (in %d Write calls)", i, f, hexs(got), hexs(want), len(cw.writes)-nw)
			return nil
		}
	}
	// ---- reader side: ref.Encode of the sequence, any chunking -> equal frames in order
	for i, f := range frames {
		fr, err := rd.Read()
		if err != nil {
			dsim.Failf("reader-roundtrip", "frame %d %s: reader returned %v; stream %s", i, f, err, hexs(stream))
			return nil
		}
		got, err := toRef(fr)
		if err != nil {
			dsim.Failf("reader-roundtrip", "frame %d: %v", i, err)
			return nil
		}
		if !got.Equal(f) {
			dsim.Failf("reader-roundtrip", "frame %d: read %s, sent %s (bytes %s)", i, got, f, hexs(f.Encode()))
			return nil
		}
		if v2, ok := fr.(*frame.V2Frame); ok {
			if (v2.Signature != nil) != f.Signed() {
				dsim.Failf("reader-roundtrip", "frame %d: signature presence %v, signed flag %v", i, v2.Signature != nil, f.Signed())
				return nil
			}
			if !f.Signed() && (v2.SignatureLinkID != 0 || v2.SignatureTimestamp != 0) {
				dsim.Failf("reader-roundtrip", "frame %d: unsigned frame read back with link id %d timestamp %d", i, v2.SignatureLinkID, v2.SignatureTimestamp)
				return nil
			}
		}
	}
	if _, err := rd.Read(); err != io.EOF {
		dsim.Failf("reader-roundtrip", "after the last frame the reader returned %v instead of EOF", err)
	}
	return nil
}

func init() {
	register(&Prop{
		ID:       "C01",
		MaxSteps: 1000,
		Body:     c01Body,
		Rule: "one evaluation = one generated sequence of 1..40 well-formed frames (v1/v2, signed/unsigned, boundary-biased header bytes, " +
			"message ids, payload lengths 0..255, 48-bit timestamps; with/without a dialect; through Writer+Reader or ReadWriter) written by " +
			"the real writer (bytes compared with the reference encoder per frame) and read back by the real reader from the reference " +
			"encoding under a drawn segmentation; unrepresentable v1 frames are injected between them; distinct = distinct history digest; " +
			"non-trivial = at least 2 frames in the sequence",
		Nontrivial:    func(r *dsim.Result) bool { return len(r.History) > 0 && r.History[0].I[0] >= 2 },
		ProbeUniverse: []string{"fault:unrepresentable-v1-frame"},
		Real:          []string{"pkg/frame (Writer, Reader, ReadWriter, V1Frame, V2Frame)"},
		Stub:          []string{"byte link (capturing writer, segmenting reader)", "reference encoder/decoder as the other end"},
	})
}
