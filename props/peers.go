package props

import (
	"fmt"
	"net"
	"sync"
	"time"

	"verif/dsim"
	"verif/ref"
	"verif/world"
)

// kinds of things a peer sends
const (
	sendValid = iota
	sendBadChecksum
	sendBadSignature
	sendJunk
	sendV1Plain // a well-formed v1 frame on a link whose node demands signatures
)

type sentItem struct {
	kind  int
	f     *ref.Frame
	bytes []byte
	t     time.Duration
	index uint32
	done  bool // completely handed to the transport
	tDone time.Duration
}

type rxChunk struct {
	t    time.Duration
	step int
	data []byte
}

// link is one connection to the node as a peer sees it.
type link struct {
	e           *env
	id          int
	ep          *epCfg
	epIdx       int
	name        string
	datagram    bool
	conn        *world.Conn       // stream transports
	uconn       *world.UDPConn    // peer-dialled UDP (node is a UDP server)
	pconn       *world.PacketConn // peer packet socket (node is a UDP client / broadcast)
	nodePort    int
	sys         byte
	comp        byte
	v2          bool
	seq         byte
	nextIdx     uint32
	sent        []sentItem // owner: the sending task
	rx          []rxChunk  // owner: the receiving task
	rxEnd       string
	rxDone      bool
	txErr       error
	opened      time.Duration
	peerClosed  bool // the peer ended the connection (close / reset)
	peerReset   bool
	ordinal     int // k-th link of its endpoint
	onData      func()
	txMu        sync.Mutex // guards the sender-side state when several tasks send on one link
	hbSent      []sentItem
	keptAlive   bool
	lossy       bool // the link's channel is replaced mid-run: at-most-once, order and whole frames only
	rxPaused    bool
	apCount     int
	nodeGone    bool
	closeSeen   bool
	lastSend    time.Duration
	unblockedAt time.Duration
}

func (e *env) newLink(ep *epCfg, name string) *link {
	e.mu.Lock()
	defer e.mu.Unlock()
	e.nlinks++
	l := &link{e: e, id: e.nlinks, ep: ep, name: fmt.Sprintf("L%d:%s:%s", e.nlinks, epNames[ep.kind], name), opened: e.now()}
	for i, x := range e.cfg.eps {
		if x == ep {
			l.epIdx = i
		}
	}
	for _, x := range e.links {
		if x.ep == ep {
			l.ordinal++
		}
	}
	l.sys = byte(50 + l.id)
	l.comp = byte(1 + l.id%7)
	l.v2 = true
	e.links = append(e.links, l)
	return l
}

func (e *env) allLinks() []*link {
	e.mu.Lock()
	defer e.mu.Unlock()
	return append([]*link(nil), e.links...)
}

// transmit hands bytes to the transport; stream transports may get them in pieces.
func (l *link) transmit(b []byte, split bool) error {
	if l.datagram {
		var err error
		switch {
		case l.uconn != nil:
			_, err = l.uconn.Write(b)
		case l.pconn != nil:
			_, err = l.pconn.WriteTo(b, udpAddr(l.nodePort))
		}
		return err
	}
	for len(b) > 0 {
		n := len(b)
		if split {
			dsim.EnsureReleased("peer-split")
			if dsim.Choose(3) != 0 {
				n = 1 + dsim.Choose(len(b))
			}
		}
		if _, err := l.conn.Write(b[:n]); err != nil {
			return err
		}
		b = b[n:]
		if split && len(b) > 0 {
			dsim.EnsureReleased("peer-split")
			switch c := dsim.Choose(30); {
			case c < 10:
				dsim.Sleep(time.Duration(1+dsim.Choose(400)) * time.Millisecond)
			case c == 29 && l.e.slowLinks && l.e.cfg.idleTO > 0 && l.e.cfg.idleTO < 10*time.Second:
				// a slow link: the rest of the frame comes later than the node's idle timeout
				count("fault:mid-frame-pause-beyond-idle-timeout")
				dsim.Sleep(l.e.cfg.idleTO + time.Duration(100+dsim.Choose(900))*time.Millisecond)
			}
		}
	}
	return nil
}

// mkFrame builds the next tagged frame of this link (valid for the node's configuration).
func (l *link) mkFrame() (*ref.Frame, uint32) {
	idx := l.nextIdx
	l.nextIdx++
	f := &ref.Frame{V2: l.v2, Seq: l.seq, Sys: l.sys, Comp: l.comp, MsgID: ref.DefTag.ID}
	l.seq++
	f.Payload = ref.DefTag.Encode(tagVals(byte(100+l.id), 0, idx, uint16(l.id)), l.v2)
	if k := l.e.cfg.inKey; k != nil {
		f.Incompat = ref.IncompatSigned
	}
	f.Checksum = f.ComputeChecksum(ref.DefTag.CRCExtra())
	if k := l.e.cfg.inKey; k != nil {
		sign(f, *k, byte(l.id), sigTicks())
	}
	return f, idx
}

// send transmits one scripted item and logs it.
func (l *link) send(kind int, split bool) error {
	dsim.EnsureReleased("peer-send")
	l.txMu.Lock()
	var it sentItem
	it.kind = kind
	switch kind {
	case sendValid:
		it.f, it.index = l.mkFrame()
		it.bytes = it.f.Encode()
	case sendBadChecksum:
		it.f, it.index = l.mkFrame()
		it.f.Checksum ^= uint16(1 + dsim.Choose(0xFFFF))
		if k := l.e.cfg.inKey; k != nil {
			it.f.Signature = it.f.ComputeSignature(*k) // correctly signed, wrong checksum
		}
		it.bytes = it.f.Encode()
		count("fault:peer-bad-checksum")
	case sendBadSignature:
		it.f, it.index = l.mkFrame()
		if dsim.Choose(2) == 1 {
			// a forgery dated (far) ahead of the real clock
			it.f.Timestamp += uint64(1_000_001 + dsim.Choose(2_000_000_000))
			count("fault:peer-forged-future-timestamp")
		}
		it.f.Signature[dsim.Choose(6)] ^= byte(1 + dsim.Choose(255))
		it.bytes = it.f.Encode()
		count("fault:peer-bad-signature")
	case sendV1Plain:
		var v2 *ref.Frame
		v2, it.index = l.mkFrame()
		g := &ref.Frame{V2: false, Seq: v2.Seq, Sys: l.sys, Comp: l.comp, MsgID: ref.DefTag.ID}
		g.Payload = ref.DefTag.Encode(tagVals(byte(100+l.id), 0, it.index, uint16(l.id)), false)
		g.Checksum = g.ComputeChecksum(ref.DefTag.CRCExtra())
		it.f, it.bytes = g, g.Encode()
		count("fault:peer-v1-on-keyed-link")
	case sendJunk:
		n := 1 + dsim.Choose(5)
		for i := 0; i < n; i++ {
			b := byte(dsim.Choose(256))
			if b == ref.MarkerV1 || b == ref.MarkerV2 {
				b = 0x11
			}
			it.bytes = append(it.bytes, b)
		}
		count("fault:peer-junk")
	}
	it.t = l.e.now()
	l.sent = append(l.sent, it)
	pos := len(l.sent) - 1
	l.txMu.Unlock() // never held across a scheduling point
	dsim.Record("peer-tx", fmt.Sprintf("%s kind=%d idx=%d %x", l.name, kind, it.index, it.bytes), nil, int64(l.id), int64(kind), int64(it.index))
	err := l.transmit(it.bytes, split)
	l.txMu.Lock()
	if err == nil {
		l.sent[pos].done = true
		l.sent[pos].tDone = l.e.now()
	} else {
		l.txErr = err
	}
	l.txMu.Unlock()
	return err
}

// sendPartial puts the first k bytes (0 < k < frame length) of an otherwise valid frame on a
// stream link: the peer stalls (or dies) in the middle of a frame.
func (l *link) sendPartial() error {
	dsim.EnsureReleased("peer-partial")
	l.txMu.Lock()
	f, idx := l.mkFrame()
	b := f.Encode()
	k := 1 + dsim.Choose(len(b)-1)
	l.txMu.Unlock()
	dsim.Record("peer-tx-partial", fmt.Sprintf("%s idx=%d %x of %x", l.name, idx, b[:k], b), nil, int64(l.id), int64(k), int64(idx))
	_, err := l.conn.Write(b[:k])
	return err
}

// sendHeartbeat sends a standard HEARTBEAT with the given autopilot type.
func (l *link) sendHeartbeat(autopilot byte) error {
	dsim.EnsureReleased("peer-hb")
	l.txMu.Lock()
	f := &ref.Frame{V2: l.v2, Seq: l.seq, Sys: l.sys, Comp: l.comp, MsgID: 0}
	l.seq++
	l.txMu.Unlock()
	vals := ref.Values{{Elems: []uint64{2}}, {Elems: []uint64{uint64(autopilot)}}, {Elems: []uint64{0}}, {Elems: []uint64{0}}, {Elems: []uint64{4}}, {Elems: []uint64{3}}}
	f.Payload = ref.DefHeartbeat.Encode(vals, l.v2)
	if k := l.e.cfg.inKey; k != nil {
		f.Incompat = ref.IncompatSigned
	}
	f.Checksum = f.ComputeChecksum(ref.DefHeartbeat.CRCExtra())
	if k := l.e.cfg.inKey; k != nil {
		sign(f, *k, byte(l.id), sigTicks())
	}
	it := sentItem{kind: sendValid, f: f, bytes: f.Encode(), t: l.e.now(), index: 1 << 30}
	l.txMu.Lock()
	l.hbSent = append(l.hbSent, it)
	l.txMu.Unlock()
	dsim.Record("peer-hb", fmt.Sprintf("%s autopilot=%d %x", l.name, autopilot, it.bytes), nil, int64(l.id), int64(autopilot))
	return l.transmit(it.bytes, false)
}

// rxLoop reads everything the node writes on this link.
func (l *link) rxLoop() {
	buf := make([]byte, 2048)
	for {
		var n int
		var err error
		for l.rxIsPaused() {
			dsim.Sleep(200 * time.Millisecond) // this peer is not draining what the node writes
		}
		switch {
		case l.conn != nil:
			n, err = l.conn.Read(buf)
		case l.uconn != nil:
			n, err = l.uconn.Read(buf)
		default:
			return // packet sockets are demultiplexed by pktLoop
		}
		// a task woken inside a blocking call is not the released one: shared harness state is
		// only touched after becoming it again
		dsim.EnsureReleased("peer-rx")
		if n > 0 {
			l.gotData(buf[:n])
		}
		if err != nil {
			l.e.mu.Lock()
			l.rxEnd = err.Error()
			l.rxDone = true
			l.e.mu.Unlock()
			dsim.Record("peer-rx-end", l.name+" "+err.Error(), nil, int64(l.id))
			return
		}
	}
}

func (l *link) gotData(b []byte) {
	c := rxChunk{t: l.e.now(), step: dsim.Step(), data: append([]byte(nil), b...)}
	l.e.mu.Lock()
	l.rx = append(l.rx, c)
	cb := l.onData
	l.e.mu.Unlock()
	if cb != nil {
		cb()
	}
	dsim.Record("peer-rx", fmt.Sprintf("%s %x", l.name, b), nil, int64(l.id), int64(len(b)))
}

func (l *link) rxIsPaused() bool {
	l.e.mu.Lock()
	defer l.e.mu.Unlock()
	return l.rxPaused
}

func (l *link) pauseRx(p bool) {
	l.e.mu.Lock()
	l.rxPaused = p
	l.e.mu.Unlock()
}

// rxEnded tells whether the peer's receive side has seen the end of the connection.
func (l *link) rxEnded() bool {
	l.e.mu.Lock()
	defer l.e.mu.Unlock()
	return l.rxDone
}

// wire returns everything received so far.
func (l *link) wire() []byte {
	l.e.mu.Lock()
	defer l.e.mu.Unlock()
	var out []byte
	for _, c := range l.rx {
		out = append(out, c.data...)
	}
	return out
}

// closeByPeer ends the connection from the peer's side.
func (l *link) closeByPeer(reset bool) {
	l.peerClosed = true
	l.peerReset = reset
	dsim.Record("peer-close", fmt.Sprintf("%s reset=%v", l.name, reset), nil, int64(l.id))
	switch {
	case l.conn != nil:
		if reset {
			count("fault:peer-reset")
			l.conn.Reset()
		} else {
			count("fault:peer-close")
			l.conn.Close()
		}
	case l.uconn != nil:
		l.uconn.Close()
	}
}

func udpAddr(port int) *net.UDPAddr { return &net.UDPAddr{IP: net.IPv4(127, 0, 0, 1), Port: port} }

// ---------------------------------------------------------------------------
// connecting peers, by endpoint kind

// connectStream makes a link over a stream connection whose peer end is c.
func (e *env) streamLink(ep *epCfg, c *world.Conn, name string) *link {
	l := e.newLink(ep, name)
	l.conn = c
	if e.peerNoRead && l.id%2 == 1 {
		return l // this peer never reads: the node's writes fill the buffer and block
	}
	dsim.Go("peer-rx", l.rxLoop)
	return l
}

// dialTCPPeer connects a peer to a TCP server endpoint.
func (e *env) dialTCPPeer(ep *epCfg) (*link, error) {
	c, err := e.w.DialTCP(ep.addr)
	if err != nil {
		return nil, err
	}
	l := e.streamLink(ep, c, fmt.Sprintf("p%d", c.LocalAddr().(world.Addr).Port))
	l.nodePort = c.LocalAddr().(world.Addr).Port // the remote port the node sees
	return l, nil
}

// dialUDPPeer connects a peer to a UDP server endpoint (the node sees it at its first datagram).
func (e *env) dialUDPPeer(ep *epCfg) (*link, error) {
	c, err := e.w.DialUDP(ep.addr)
	if err != nil {
		return nil, err
	}
	l := e.newLink(ep, fmt.Sprintf("p%d", c.Port()))
	l.uconn = c
	l.datagram = true
	l.nodePort = c.Port()
	dsim.Go("peer-rx", l.rxLoop)
	return l, nil
}

// customLink is the peer end of a custom endpoint's pipe.
func (e *env) customLink(ep *epCfg) *link {
	return e.streamLink(ep, ep.pipeP, "pipe")
}

// tcpServerPeer listens where a TCP client endpoint connects; every accepted connection becomes
// a link and is handed to onLink (called in the accepting task).
func (e *env) tcpServerPeer(ep *epCfg, onLink func(*link)) (*world.TCPListener, error) {
	ln, err := e.w.ListenTCP(ep.addr, false)
	if err != nil {
		return nil, err
	}
	dsim.Go("peer-accept", func() {
		for {
			c, err := ln.Accept()
			if err != nil {
				return
			}
			l := e.streamLink(ep, c.(*world.Conn), "acc")
			if onLink != nil {
				onLink(l)
			}
		}
	})
	return ln, nil
}

// serialPeer attaches to a serial device: every open of the device gives a link.
func (e *env) serialPeer(ep *epCfg, onLink func(*link)) {
	ep.serial.OnOpen = func(node, peer *world.Conn) {
		// runs in the opening (node) task: only bookkeeping here, the peer's own tasks do the I/O
		l := e.streamLink(ep, peer, "tty")
		if onLink != nil {
			onLink(l)
		}
	}
}

// packetPeer binds the socket a UDP client endpoint sends to (or a broadcast listener); a
// link is created per node source port.
func (e *env) packetPeer(ep *epCfg, onLink func(*link)) (*world.PacketConn, error) {
	addr := ep.addr
	bcast := 0
	if ep.kind == epBroadcast {
		addr = fmt.Sprintf("127.0.0.1:%d", ep.port+5)
		bcast = ep.bport
	}
	pc, err := e.w.ListenPacketPeer(addr, bcast)
	if err != nil {
		return nil, err
	}
	dsim.Go("peer-pkt", func() {
		buf := make([]byte, 2048)
		byPort := map[int]*link{}
		for {
			n, from, err := pc.ReadFrom(buf)
			if err != nil {
				return
			}
			dsim.EnsureReleased("peer-pkt")
			port := from.(*net.UDPAddr).Port
			l := byPort[port]
			if l == nil {
				l = e.newLink(ep, fmt.Sprintf("n%d", port))
				l.pconn = pc
				l.datagram = true
				l.nodePort = port
				byPort[port] = l
				l.gotData(buf[:n])
				if onLink != nil {
					onLink(l)
				}
				continue
			}
			l.gotData(buf[:n])
		}
	})
	return pc, nil
}
