package props

import (
	"fmt"
	"io"
	"time"

	"github.com/bluenviron/gomavlib/v3/pkg/frame"
	"github.com/bluenviron/gomavlib/v3/pkg/streamwriter"

	"verif/dsim"
	"verif/hd"
	"verif/ref"
)

// C07 — signature replay window. Histories of correctly signed frames are what a reordering,
// duplicating, delaying link produces; the accept/refuse decisions of the real keyed reader are
// compared, frame by frame, with the executable model ref.ReplayWindow. Outgoing clause: on the
// fake clock (start date drawn), every signed frame carries floor((now - 2015-01-01) / 10us) and
// timestamps never decrease on a link under arbitrary pauses.
//
// Not demanded: the effect on the window of frames with a valid signature but an invalid
// checksum (only checksum-valid frames are generated); backwards clock steps (the fake clock is
// monotone).

var tsAlphabet = []uint64{0, 1, 5, 999_999, 1_000_000, 1_000_001, 2_000_000, 2_000_001, 3_000_000,
	1<<32 - 1, 1 << 32, 1<<32 + 1, 1<<32 + 1_000_000, 1<<48 - 2_000_001, 1<<48 - 1_000_001, 1<<48 - 1_000_000, 1<<48 - 999_999, 1<<48 - 2, 1<<48 - 1}

func genTS(prev uint64) uint64 {
	switch dsim.Choose(6) {
	case 0, 1:
		return tsAlphabet[dsim.Choose(len(tsAlphabet))]
	case 2: // near the previous one
		d := uint64(dsim.Choose(2_200_000))
		if dsim.Choose(2) == 0 {
			if prev >= d {
				return prev - d
			}
			return 0
		}
		if prev+d < 1<<48 {
			return prev + d
		}
		return 1<<48 - 1
	case 3: // exactly at the edges of the window
		edge := []int64{-1_000_001, -1_000_000, -999_999, -1, 0, 1}[dsim.Choose(6)]
		v := int64(prev) + edge
		if v < 0 {
			v = 0
		}
		if v >= 1<<48 {
			v = 1<<48 - 1
		}
		return uint64(v)
	case 4:
		return uint64(dsim.Choose(3_000_000))
	}
	return genUint(48)
}

func c07Reader() {
	withDialect := dsim.Choose(2) == 1
	key := genKey()
	cfg := readerCfg{key: frame.NewV2Key(key[:])}
	if withDialect {
		cfg.drw = hd.NewRW()
	}
	n := 2 + dsim.Choose(5)
	if dsim.Choose(4) == 3 {
		n = 6 + dsim.Choose(depth(60, 300))
	}
	var data []byte
	var tss []uint64
	var forged []bool
	var prev uint64
	for i := 0; i < n; i++ {
		var f *ref.Frame
		var d *ref.MsgDef
		if withDialect && dsim.Choose(2) == 0 {
			f, d, _ = genDialectFrame(true)
		} else {
			f = genRawFrame(true, false)
			for withDialect && ref.DefByID(ref.HarnessDefs, f.MsgID) != nil {
				f.MsgID++
			}
		}
		ts := genTS(prev)
		prev = ts
		signValid(f, d, key, genByte(), ts)
		isForged := dsim.Choose(6) == 5
		if isForged {
			// an attacker's frame (wrong signature) with an arbitrary timestamp: refused, and the
			// window must not move
			f.Signature[dsim.Choose(6)] ^= byte(1 + dsim.Choose(255))
			count("fault:forged-frame-in-history")
		}
		forged = append(forged, isForged)
		tss = append(tss, ts)
		data = append(data, f.Encode()...)
	}
	dsim.Record("history", fmt.Sprint(tss), nil, int64(n))
	res, ok := readAll("C07", data, dsim.Choose(3), len(data), io.EOF, cfg)
	if !ok {
		return
	}
	var model ref.ReplayWindow
	var verdicts []string
	for i, ts := range tss {
		if i >= len(res) || res[i].kind == 2 {
			dsim.Failf("replay-window", "history %v: only %d results for %d frames", tss, len(res), n)
			return
		}
		want := false
		if !forged[i] {
			want = model.Accept(ts)
		}
		got := res[i].kind == 0
		if got {
			verdicts = append(verdicts, "accept")
		} else {
			verdicts = append(verdicts, "refuse")
		}
		if got != want {
			dsim.Failf("replay-window", "timestamp history %v (forged: %v): frame %d (ts=%d, newest accepted before it=%d): reader %s, model says accept=%v (%v)",
				tss[:i+1], forged[:i+1], i, ts, model.Newest, verdicts[i], want, res[i].err)
			return
		}
	}
}

var sigEpoch = time.Date(2015, 1, 1, 0, 0, 0, 0, time.UTC)

func c07Writer() {
	// start date of the fake clock
	var start time.Time
	switch dsim.Choose(4) {
	case 0:
		start = time.Date(2020+dsim.Choose(20), time.Month(1+dsim.Choose(12)), 1+dsim.Choose(28), dsim.Choose(24), dsim.Choose(60), dsim.Choose(60), dsim.Choose(1e9), time.UTC)
	case 1:
		start = sigEpoch.Add(time.Duration(dsim.Choose(20_000_000)) * time.Microsecond) // small timestamps
	case 2:
		start = time.Date(2090+dsim.Choose(10), 6, 1, 0, 0, 0, dsim.Choose(1e9), time.UTC)
	default:
		start = time.Date(2026, 9, 27, 12, 0, 0, dsim.Choose(1e9), time.UTC)
	}
	dsim.Sleep(time.Until(start))
	key := genKey()
	link := genByte()
	cw := &capWriter{failAt: -1}
	useStream := dsim.Choose(2) == 0
	var write func() error
	fw := &frame.Writer{ByteWriter: cw, DialectRW: hd.NewRW(), OutVersion: frame.V2, OutSystemID: 9, OutSignatureLinkID: link, OutKey: frame.NewV2Key(key[:])}
	if err := fw.Initialize(); err != nil {
		dsim.Failf("init", "%v", err)
		return
	}
	if useStream {
		fw = &frame.Writer{ByteWriter: cw, DialectRW: hd.NewRW()}
		fw.Initialize() //nolint
		sw := &streamwriter.Writer{FrameWriter: fw, Version: streamwriter.V2, SystemID: 9, SignatureLinkID: link, Key: frame.NewV2Key(key[:])}
		if err := sw.Initialize(); err != nil {
			dsim.Failf("init", "%v", err)
			return
		}
		write = func() error { return sw.Write(&hd.MessageVerifTag{Index: uint32(len(cw.writes))}) }
	} else {
		write = func() error { return fw.WriteMessage(&hd.MessageVerifTag{Index: uint32(len(cw.writes))}) }
	}
	// preemption: under stall injection time may pass at any scheduling point, clock reads included
	stalls := dsim.Choose(3) == 2
	if stalls {
		dsim.EnableStalls(100 + dsim.Choose(300))
		count("fault:preemption-at-clock-reads")
	}
	n := 2 + dsim.Choose(12)
	var nows, afters []time.Time
	for i := 0; i < n; i++ {
		now := time.Now()
		if err := write(); err != nil {
			dsim.Failf("sign-clock", "write %d refused: %v", i, err)
			return
		}
		nows = append(nows, now)
		afters = append(afters, time.Now())
		switch dsim.Choose(5) {
		case 0:
		case 1:
			dsim.Sleep(time.Duration(1+dsim.Choose(30)) * time.Microsecond)
		case 2:
			dsim.Sleep(time.Duration(1+dsim.Choose(5000)) * time.Millisecond)
		case 3:
			dsim.Sleep(time.Duration(1+dsim.Choose(3600)) * time.Second)
		case 4:
			dsim.Sleep(time.Duration(dsim.Choose(10_000)) * time.Nanosecond)
		}
	}
	frames, ok := verifyOutgoing("sign-clock", cw.all, key, link)
	if !ok {
		return
	}
	if len(frames) != n {
		dsim.Failf("sign-clock", "%d writes, %d frames", n, len(frames))
		return
	}
	var prev uint64
	for i, f := range frames {
		want := uint64(nows[i].Sub(sigEpoch) / (10 * time.Microsecond))
		if stalls {
			// the stamp is the clock at some instant of the call
			hi := uint64(afters[i].Sub(sigEpoch) / (10 * time.Microsecond))
			if f.Timestamp < want || f.Timestamp > hi {
				dsim.Failf("sign-clock", "frame %d written between %v and %v carries timestamp %d, outside [%d, %d] = floor((clock-2015-01-01)/10us) over the call", i, nows[i], afters[i], f.Timestamp, want, hi)
				return
			}
		} else if f.Timestamp != want {
			dsim.Failf("sign-clock", "frame %d written at %v carries timestamp %d, want floor((now-2015-01-01)/10us) = %d", i, nows[i], f.Timestamp, want)
			return
		}
		if i > 0 && f.Timestamp < prev {
			dsim.Failf("sign-clock", "timestamps decrease on the link: %d after %d", f.Timestamp, prev)
			return
		}
		prev = f.Timestamp
	}
	dsim.Record("clock", fmt.Sprintf("start=%v stream=%v first-ts=%d", start, useStream, frames[0].Timestamp), nil, int64(n))
}

func c07Body() func(h []dsim.Rec) {
	if dsim.Choose(4) == 3 {
		c07Writer()
	} else {
		c07Reader()
	}
	return nil
}

func init() {
	register(&Prop{
		ID:       "C07",
		MaxSteps: 2000,
		Horizon:  200 * 365 * 24 * time.Hour,
		Body:     c07Body,
		Rule: "one evaluation = either (reader) one history of 2..66 correctly signed frames whose timestamps are drawn from a boundary " +
			"alphabet {0,1,5,999999,1000000,1000001,2e6,2^32+-1,2^48-1000001..2^48-1}, window edges relative to the previous one, and " +
			"random 48-bit values, read by the real keyed reader (with/without dialect, drawn segmentation) and compared frame by frame " +
			"with the replay-window model, or (writer) 2..13 signed writes on the fake clock started at a drawn date with drawn pauses, " +
			"checking the timestamp formula and monotonicity; distinct = distinct history digest; non-trivial = always (every history has " +
			">= 2 frames)",
		Nontrivial: func(r *dsim.Result) bool { return len(r.History) > 0 },
		Real:       []string{"pkg/frame (Reader with InKey, Writer.WriteMessage)", "pkg/streamwriter", "pkg/dialect", "pkg/message"},
		Stub:       []string{"reordering/duplicating link (timestamp histories)", "fake clock (synctest)", "replay-window model and reference signature as oracle"},
	})
}
