package props

import (
	"fmt"
	"strings"
	"time"

	"github.com/bluenviron/gomavlib/v3"

	"verif/dsim"
	"verif/hd"
	"verif/world"
)

// C12 — Close always terminates and releases everything.
//
// Simulated system: a real node over every endpoint kind (custom, TCP server/client, UDP
// server/client, serial, UDP broadcast) in drawn situations — consumer running / stopped /
// never started, peers that do not read (writer blocked in the transport), hanging and refused
// connection attempts (provider mid-connect or in reconnect back-off), peers disconnecting
// (channel mid-close), concurrent Write* callers — and Close issued at a drawn instant under a
// drawn schedule. A separate mode makes Initialize fail at the i-th endpoint.
//
// Bound for Close: max(WriteTimeout, ReadTimeout) plus a second of slack, in simulated time:
// a writer blocked in a socket is released by its write deadline, a dial by its context.
//
// Not demanded: anything about events or writes lost because of the close.

func isNodeTask(name string) bool {
	// tasks started by the instrumented package carry their spawn site "file.go:line"
	if at := strings.IndexByte(name, '@'); at >= 0 {
		name = name[:at]
	}
	return strings.Contains(name, ".go:")
}

func nodeTasksAlive() []string {
	var out []string
	for _, t := range dsim.LiveTasks() {
		if isNodeTask(t) {
			out = append(out, t)
		}
	}
	return out
}

// sleepNet sleeps until d of simulated time has passed net of injected stalls.
func sleepNet(d time.Duration) {
	st0, t0 := dsim.StallTime(), dsim.Now()
	for i := 0; i < 64; i++ {
		net := (dsim.Now() - t0) - (dsim.StallTime() - st0)
		if net >= d {
			return
		}
		dsim.Sleep(d - net)
	}
}

// checkReleased evaluates the "everything released" oracles after Close has returned.
func (e *env) checkReleased(oracle string) bool {
	if live := nodeTasksAlive(); len(live) > 0 {
		dsim.Failf(oracle, "Close returned but %d goroutine(s) started by the node are still alive: %v", len(live), live)
		return false
	}
	if open := e.w.OpenNodeResources(); len(open) > 0 {
		dsim.Failf(oracle, "Close returned but the node still holds: %v", open)
		return false
	}
	for _, ep := range e.cfg.eps {
		if ep.kind == epCustom {
			if n := ep.pipe.CloseCount(); n != 1 {
				dsim.Failf(oracle, "the custom transport was closed %d times, expected exactly once", n)
				return false
			}
		}
	}
	for _, c := range e.w.Conns() {
		if c.NodeSide && c.Kind == "serial" && !c.Closed() {
			dsim.Failf(oracle, "Close returned but serial port %s is still open", c.Name)
			return false
		}
	}
	return true
}

func c12InitFailure() {
	// a node whose initialisation fails at the i-th endpoint leaves nothing behind
	cfg := genNodeCfg()
	e := newEnv(cfg)
	dsim.SetDate(time.Date(2026, 5, 1, 0, 0, 0, 0, time.UTC))
	n := 1 + dsim.Choose(4)
	failAt := dsim.Choose(n)
	cfgFail := dsim.Choose(3) == 2 // all endpoints are fine, the configuration is not
	if cfgFail {
		failAt = -1
		switch dsim.Choose(4) {
		case 0:
			cfg.version = 0 // missing version
		case 1:
			cfg.sysID = 0
		case 2:
			k := genKey()
			cfg.outKey, cfg.version = &k, 1 // outgoing key requires v2
		case 3:
			cfg.dialectKind = 5 // a dialect with duplicate ids
		}
		count("fault:init-config-failure")
	}
	kinds := []int{epTCPServer, epUDPServer, epTCPClient, epUDPClient, epSerial, epBroadcast, epCustom}
	mayFail := false
	for i := 0; i < n; i++ {
		k := kinds[dsim.Choose(len(kinds))]
		if i == failAt {
			k = kinds[dsim.Choose(6)] // custom endpoints cannot fail
		}
		ep := e.addEndpoint(k)
		if i != failAt {
			continue
		}
		switch ep.kind {
		case epTCPServer:
			if dsim.Choose(2) == 0 {
				e.w.ListenTCP(ep.addr, false) //nolint: port already in use
			} else {
				ep.conf = gomavlib.EndpointTCPServer{Address: "nonsense"}
			}
		case epUDPServer:
			if dsim.Choose(2) == 0 {
				e.w.ListenPacketPeer(ep.addr, 0) //nolint
			} else {
				ep.conf = gomavlib.EndpointUDPServer{Address: "nonsense"}
			}
		case epTCPClient:
			ep.conf = gomavlib.EndpointTCPClient{Address: "nonsense"}
		case epUDPClient:
			ep.conf = gomavlib.EndpointUDPClient{Address: "nonsense"}
		case epSerial:
			ep.serial.OpenErr = fmt.Errorf("no such device")
		case epBroadcast:
			switch dsim.Choose(3) {
			case 0:
				e.w.ListenPacketPeer(ep.addr, 0) //nolint
			case 1:
				ep.conf = gomavlib.EndpointUDPBroadcast{BroadcastAddress: "nonsense", LocalAddress: ep.addr}
			case 2:
				// a doubtful configuration: whether it is accepted is not the property's business;
				// that nothing is left behind either way is
				bad := []string{"192.168.7.255:mavlink", "192.168.7.255:70000", "192.168.7.255:-1", "192.168.7.255:"}[dsim.Choose(4)]
				ep.conf = gomavlib.EndpointUDPBroadcast{BroadcastAddress: bad, LocalAddress: ep.addr}
				mayFail = true
				count("fault:init-doubtful-config")
			}
		}
	}
	count("fault:init-failure")
	err := e.startNode()
	if err == nil && mayFail && !cfgFail {
		// accepted: then it must close like any other node
		dsim.Sleep(time.Duration(dsim.Choose(3000)) * time.Millisecond)
		e.node.Close()
		dsim.Sleep(5 * time.Second)
		dsim.Settle("after-doubtful-close")
		e.checkReleased("close-releases")
		return
	}
	if err == nil {
		if cfgFail {
			dsim.Failf("init-failure-clean", "Initialize succeeded with an invalid configuration (%s)", cfg)
		} else {
			dsim.Failf("init-failure-clean", "Initialize succeeded although endpoint %d (%s) cannot be set up", failAt, epNames[e.cfg.eps[failAt].kind])
		}
		e.node.Close()
		return
	}
	dsim.Sleep(5 * time.Second)
	dsim.Settle("after-init-failure")
	if live := nodeTasksAlive(); len(live) > 0 {
		dsim.Failf("init-failure-clean", "Initialize failed (%v) at endpoint %d of %d but left %d goroutine(s): %v", err, failAt, n, len(live), live)
		return
	}
	if open := e.w.OpenNodeResources(); len(open) > 0 {
		dsim.Failf("init-failure-clean", "Initialize failed (%v) at endpoint %d of %d (%s) but left: %v", err, failAt, n, e.cfg, open)
		return
	}
	for _, ep := range e.cfg.eps {
		if ep.kind == epCustom && cfgFail && ep.pipe.CloseCount() > 1 {
			dsim.Failf("init-failure-clean", "the custom transport was closed %d times by a failing Initialize", ep.pipe.CloseCount())
			return
		}
	}
	for _, c := range e.w.Conns() {
		if c.NodeSide && c.Kind == "serial" && !c.Closed() {
			dsim.Failf("init-failure-clean", "Initialize failed but serial port %s is still open", c.Name)
			return
		}
	}
}

func c12Body() func(h []dsim.Rec) {
	if dsim.Choose(8) == 7 {
		c12InitFailure()
		return nil
	}
	cfg := genNodeCfg()
	if dsim.Choose(5) == 4 {
		cfg.dialectKind = 1
	}
	cfg.hbPeriod = time.Duration(100+dsim.Choose(3000)) * time.Millisecond
	cfg.hbDisable = dsim.Choose(4) == 3
	cfg.srEnable = dsim.Choose(3) == 2
	cfg.writeTO = dsim.Pick(time.Duration(0), 500*time.Millisecond, 2*time.Second, 7*time.Second)
	cfg.readTO = dsim.Pick(time.Duration(0), 500*time.Millisecond, 3*time.Second)
	cfg.idleTO = dsim.Pick(time.Duration(0), time.Second, 5*time.Second)
	if dsim.Choose(3) == 2 {
		dsim.EnableStalls(1 + dsim.Choose(30))
	}
	if dsim.Choose(3) == 0 {
		// goroutines take their time to start: Close must wait for those it has not seen run yet
		dsim.NewbornLast(true)
		count("cov:newborn-goroutines-scheduled-last")
	}
	e := newEnv(cfg)
	e.w.ChunkMode = dsim.Choose(3)
	e.w.SendBuf = dsim.Pick(300, 1<<16, 4096)
	e.w.SerialOpenLatency = dsim.Pick(time.Duration(0), 3*time.Millisecond, 45*time.Millisecond)
	dsim.SetDate(time.Date(2026, 5, 1, 0, 0, 0, 0, time.UTC))
	e.start = time.Now()
	neps := 1 + dsim.Choose(depth(3, 5))
	for i := 0; i < neps; i++ {
		e.addEndpoint(dsim.Choose(numEpKinds))
	}
	// connection faults for client endpoints: verdict per attempt, drawn up front
	verdicts := map[string][]world.DialVerdict{}
	for _, ep := range e.cfg.eps {
		if ep.kind == epTCPClient || ep.kind == epUDPClient {
			var v []world.DialVerdict
			for i := 0; i < 6; i++ {
				v = append(v, world.DialVerdict(dsim.Choose(3)))
			}
			verdicts[ep.addr] = v
		}
		if ep.kind == epSerial {
			for i := 2; i < 8; i++ {
				if dsim.Choose(3) == 2 {
					ep.serial.FailOpenAt[i] = true
				}
			}
		}
	}
	e.w.DialHook = func(network, addr string, attempt int) world.DialVerdict {
		v := verdicts[addr]
		if attempt-1 < len(v) {
			return v[attempt-1]
		}
		return world.DialOK
	}
	// some peers never read what the node writes: its writer ends up blocked in the transport
	noRead := dsim.Choose(3) == 2
	e.peerNoRead = noRead
	if noRead {
		count("fault:peer-not-reading")
		// ... and the line then fails on its read side while the write is still stuck
		readFaultAfter := 2 + dsim.Choose(6)
		e.w.OnNewConn = func(c *world.Conn) {
			if c.Kind == "serial" {
				c.SetFaults(world.Faults{ReadErrAt: c.ReadCount() + readFaultAfter, ReadErr: errInjectedRead})
			}
		}
	}
	// ... or the link goes bad (device unplugged, connection broken) some time after the node's
	// writer got stuck behind the peer that does not drain
	unplug := noRead && dsim.Choose(2) == 1
	if unplug {
		e.w.SendBuf = 300
		e.w.OnNewConn = nil
		cfg.hbPeriod = time.Duration(100+dsim.Choose(300)) * time.Millisecond
	}
	e.peerAPHeartbeats = cfg.srEnable && cfg.dialectKind == 0
	d := &driverSet{e: e}
	consMode := dsim.Choose(4) // 0,1 running; 2 stops after k events; 3 never started
	cons := &consumer{e: e, pace: dsim.Choose(3)}
	if consMode == 2 {
		cons.stopAt = 1 + dsim.Choose(12)
		count("cov:consumer-stops")
	}
	e.cons = cons
	e.drivePeers(d, true, true, 10)
	if err := e.startNode(); err != nil {
		dsim.Failf("harness", "node did not initialise: %v (%s)", err, cfg)
		return nil
	}
	if consMode != 3 {
		dsim.Go("consumer", cons.run)
	} else {
		count("cov:consumer-never-started")
	}
	// writers: keep writing through and after the close
	nw := dsim.Choose(4)
	stopWriters := false
	for i := 0; i < nw; i++ {
		w := &writer{e: e, id: i + 1}
		e.writers = append(e.writers, w)
		big := dsim.Choose(2) == 1
		dsim.Go("writer", func() {
			for j := 0; j < 400; j++ {
				e.mu.Lock()
				stop := stopWriters
				e.mu.Unlock()
				if stop {
					break
				}
				dsim.EnsureReleased("writer")
				op := dsim.Choose(numOps)
				if !cfg.hasDialect() {
					op = opFrameAll + op%3
				}
				var target *gomavlib.Channel
				if chs := e.openChannels(); len(chs) > 0 {
					target = chs[dsim.Choose(len(chs))]
				}
				e.mu.Lock()
				w.inCall = true
				e.mu.Unlock()
				if big && cfg.hasDialect() && op == opMsgAll {
					func() {
						defer func() {
							if r := recover(); r != nil {
								dsim.Failf("write-panic", "WriteMessageAll panicked: %v", r)
							}
						}()
						e.node.WriteMessageAll(&hd.MessageVerifBig{Data: [255]uint8{1, 2, 3, 254: 9}}) //nolint
					}()
				} else {
					w.writeOne(op, target, "", dsim.Choose(2) == 1)
				}
				e.mu.Lock()
				w.inCall = false
				w.calls++
				e.mu.Unlock()
				dsim.EnsureReleased("writer")
				if dsim.Choose(3) == 0 {
					dsim.Sleep(time.Duration(dsim.Choose(150)) * time.Millisecond)
				}
			}
			e.mu.Lock()
			w.done = true
			e.mu.Unlock()
		})
	}
	if unplug {
		dsim.Go("unplug", func() {
			broken := map[*world.Conn]bool{}
			for i := 0; i < 150; i++ {
				e.mu.Lock()
				stop := stopWriters
				e.mu.Unlock()
				if stop {
					return
				}
				for _, c := range e.w.Conns() {
					if !c.NodeSide || c.Kind == "pipe" || c.Closed() || broken[c] {
						continue
					}
					if pressed, _ := c.Pressed(); pressed {
						broken[c] = true
						dsim.Sleep(time.Duration(dsim.Choose(400)) * time.Millisecond)
						c.InjectReadErr(errInjectedRead)
						count("fault:read-error-while-writer-stuck")
					}
				}
				dsim.Sleep(100 * time.Millisecond)
			}
		})
	}
	// the close point
	closeAt := time.Duration(dsim.Choose(9000)) * time.Millisecond
	if dsim.Choose(4) == 0 {
		closeAt = time.Duration(dsim.Choose(50)) * time.Millisecond
	}
	if dsim.Choose(3) == 2 {
		// the close point is a scheduling step, not an instant: Close lands between two
		// synchronisation operations of an otherwise unchanged schedule
		k := dsim.Choose(4000)
		count("cov:close-at-step")
		for dsim.Step() < k {
			dsim.Yield("close-at-step")
		}
	} else {
		dsim.Sleep(closeAt)
	}
	returned := false
	t0 := e.now()
	dsim.Record("close-call", "", nil, int64(t0))
	var aliveAtReturn []string
	dsim.Go("closer", func() {
		e.node.Close()
		dsim.EnsureReleased("closer")
		// the instant Close returns: every goroutine the node started has ended (not "will end soon")
		// (a goroutine that has called wg.Done and is returning through its remaining deferred calls
		// is a tail every WaitGroup join has; one that has not even begun to run was not waited for)
		var alive []string
		for _, t := range nodeTasksAlive() {
			if strings.HasSuffix(t, "@start") {
				alive = append(alive, t)
			}
		}
		e.mu.Lock()
		returned = true
		aliveAtReturn = alive
		e.mu.Unlock()
		dsim.Record("close-return", "", nil, int64(e.now()-t0))
	})
	wto, rto := cfg.writeTO, cfg.readTO
	if wto == 0 {
		wto = 10 * time.Second
	}
	if rto == 0 {
		rto = 10 * time.Second
	}
	bound := wto
	if rto > bound {
		bound = rto
	}
	bound += time.Second
	// the bound is counted net of injected stalls (time during which the node's runnable goroutines
	// were held back by the simulator is not the node's time)
	st0 := dsim.StallTime()
	for i := 0; i < 64; i++ {
		net := (e.now() - t0) - (dsim.StallTime() - st0)
		if net >= bound {
			break
		}
		dsim.Sleep(bound - net)
	}
	dsim.Settle("after-close-bound")
	e.mu.Lock()
	ret := returned
	e.mu.Unlock()
	if !ret {
		dsim.Failf("close-terminates", "Close had not returned %v (simulated) after it was called at t=%v; write timeout %v, read/dial timeout %v; config %s; tasks of the node still alive: %v",
			bound, t0, wto, rto, cfg, nodeTasksAlive())
		return nil
	}
	e.mu.Lock()
	early := aliveAtReturn
	e.mu.Unlock()
	if len(early) > 0 {
		dsim.Failf("close-waits-for-goroutines", "at the instant Close returned (t=%v) %d goroutine(s) started by the node had not even begun to run: %v", t0, len(early), early)
		return nil
	}
	if !e.checkReleased("close-releases") {
		return nil
	}
	// the event channel is closed: ranging over it ends
	cStopped, _ := cons.state()
	if consMode != 3 && !cStopped {
		e.mu.Lock()
		ended := cons.ended
		e.mu.Unlock()
		if !ended {
			// the consumer may have stopped by itself exactly now; otherwise its range must have ended
			sleepNet(2 * time.Second)
			dsim.Settle("consumer-end")
			e.mu.Lock()
			ended = cons.ended || cons.stopped
			e.mu.Unlock()
			if !ended {
				dsim.Failf("events-closed", "Close returned but the consumer's range over Events() has not ended")
				return nil
			}
		}
	}
	// whoever drains Events() now reaches its end without blocking
	drained := false
	dsim.Go("drain", func() {
		for {
			if _, ok := dsim.Recv2("drain", e.node.Events()); !ok {
				break
			}
		}
		dsim.EnsureReleased("drain")
		e.mu.Lock()
		drained = true
		e.mu.Unlock()
	})
	// writes racing with or following the close return
	e.mu.Lock()
	stopWriters = true
	e.mu.Unlock()
	sleepNet(3 * time.Second)
	dsim.Settle("after-close")
	e.mu.Lock()
	ok := drained
	e.mu.Unlock()
	cStopped, _ = cons.state()
	if !ok && (consMode == 3 || cStopped) {
		dsim.Failf("events-closed", "after Close, receiving from Events() blocks instead of reporting a closed channel")
		return nil
	}
	for _, w := range e.writers {
		e.mu.Lock()
		in, done, calls := w.inCall, w.done, w.calls
		e.mu.Unlock()
		if in || !done {
			dsim.Failf("write-after-close", "writer %d is still blocked inside a Write* call %v after Close returned (%d calls completed)", w.id, 3*time.Second, calls)
			return nil
		}
	}
	// one more write after everything is over
	func() {
		defer func() {
			if r := recover(); r != nil {
				dsim.Failf("write-panic", "Write after Close panicked: %v", r)
			}
		}()
		if cfg.hasDialect() {
			e.node.WriteMessageAll(tagMsg(9, 9, 9, 9)) //nolint
		}
	}()
	// a second life of the same Node value (Initialize, a short while, Close): the first life
	// released everything, so the second starts and ends like the first. Decided by a draw at the
	// very end, so the runs up to here are the ones explored before. Custom transports are spent
	// after one life (their ReadWriteCloser has been closed) and are left out.
	for _, ep := range e.cfg.eps {
		if ep.kind == epCustom {
			return nil
		}
	}
	if dsim.Choose(4) != 0 {
		return nil
	}
	count("cov:second-life")
	var ierr error
	panicked := ""
	func() {
		defer func() {
			if r := recover(); r != nil {
				panicked = fmt.Sprint(r)
			}
		}()
		ierr = e.node.Initialize()
	}()
	if panicked != "" {
		dsim.Failf("second-life", "Initialize of the closed Node value panicked: %s", panicked)
		return nil
	}
	if ierr != nil {
		dsim.Record("second-init-error", ierr.Error(), nil) // whether a Node value can be initialized again is not demanded
		return nil
	}
	ev := e.node.Events()
	dsim.Go("drain2", func() {
		for {
			if _, ok := dsim.Recv2("drain2", ev); !ok {
				break
			}
		}
	})
	dsim.Sleep(time.Duration(50+dsim.Choose(1500)) * time.Millisecond)
	returned2 := false
	t1 := e.now()
	dsim.Record("close-call-2", "", nil, int64(t1))
	dsim.Go("closer2", func() {
		e.node.Close()
		dsim.EnsureReleased("closer2")
		e.mu.Lock()
		returned2 = true
		e.mu.Unlock()
	})
	st1 := dsim.StallTime()
	for i := 0; i < 64; i++ {
		net := (e.now() - t1) - (dsim.StallTime() - st1)
		if net >= bound {
			break
		}
		dsim.Sleep(bound - net)
	}
	dsim.Settle("after-second-close")
	e.mu.Lock()
	ret = returned2
	e.mu.Unlock()
	if !ret {
		dsim.Failf("close-terminates", "second life of the same Node value: Close had not returned %v (simulated) after it was called at t=%v; config %s; tasks of the node still alive: %v",
			bound, t1, cfg, nodeTasksAlive())
		return nil
	}
	e.checkReleased("close-releases")
	return nil
}

func init() {
	register(&Prop{
		ID:         "C12",
		MaxSteps:   400000,
		Horizon:    40 * 365 * 24 * time.Hour,
		Body:       c12Body,
		HangOracle: "close-terminates",
		Rule: "one evaluation = one simulated deployment over 1..3 endpoints of any of the 7 kinds with drawn faults (peers that never " +
			"read, hanging / refused connection attempts, failing serial opens, disconnecting peers), consumer running / stopping / never " +
			"started, 0..3 writers that keep calling Write* through and after the close, Close issued at a drawn instant; or (1/8) an " +
			"Initialize that fails at a drawn endpoint; distinct = distinct schedule hash + history digest; non-trivial = at least two " +
			"tasks interleaved and Close (or a failing Initialize) was exercised",
		Nontrivial: func(r *dsim.Result) bool {
			if r.Interleave == 0 {
				return false
			}
			for _, rec := range r.History {
				if rec.Kind == "close-call" || rec.Kind == "init-error" {
					return true
				}
			}
			return false
		},
		ProbeUniverse: []string{"fault:init-doubtful-config", "fault:read-error-while-writer-stuck", "fault:peer-not-reading", "fault:dial-refused", "fault:dial-hang", "fault:dial-fail", "fault:serial-open-fail", "fault:write-block",
			"cov:write-backpressure", "fault:init-failure", "cov:consumer-stops", "cov:consumer-never-started", "fault:peer-close", "fault:peer-reset"},
		Real: []string{"gomavlib (Node, Channel, channelProvider, all endpoint kinds, heartbeat, stream requests; instrumented with scheduling points only)", "pkg/frame", "pkg/message", "pkg/dialect", "pkg/streamwriter", "pkg/timednetconn"},
		Stub: []string{"goroutine scheduler (dsim)", "clock (synctest)", "net sockets, listeners, dialer", "pion UDP listener", "serial port", "crypto/rand"},
	})
}
