package props

import (
	"errors"
	"fmt"
	"io"
	"time"

	"github.com/bluenviron/gomavlib/v3/pkg/frame"
	"github.com/bluenviron/gomavlib/v3/pkg/message"
	"github.com/bluenviron/gomavlib/v3/pkg/tlog"

	"verif/dsim"
	"verif/hd"
	"verif/ref"
)

// C20 — telemetry logs: round trip, crash-truncation safety, no partial entries.
//
// Simulated system: real tlog.Writer -> simulated disk (append-only file behind io.Writer whose
// k-th Write can fail after accepting a prefix) -> crash (the file is cut at a byte offset) ->
// real tlog.Reader over a segmenting reader. Every cut offset of every generated file and every
// (failing call, accepted prefix length) pair is enumerated inside a run.

type tlEntry struct {
	t    time.Time
	f    *ref.Frame  // what must be on disk
	fr   frame.Frame // what is handed to the writer
	def  *ref.MsgDef
	vals ref.Values
	bad  string // non-empty: the frame cannot be encoded
}

func genTime() time.Time {
	var sec int64
	switch dsim.Choose(6) {
	case 5:
		// far from the epoch: outside the range a count of nanoseconds can hold (years 1..1677, 2262..9999)
		if dsim.Choose(2) == 0 {
			sec = -9_300_000_000 - int64(genUint(35))%52_800_000_000
		} else {
			sec = 9_300_000_000 + int64(genUint(38))%244_000_000_000
		}
		if dsim.Choose(6) == 0 {
			sec = time.Time{}.Unix() // an entry whose Time was never set
		}
		count("cov:time-beyond-int64-nanoseconds")
	case 0:
		sec = 1_700_000_000 + int64(dsim.Choose(100000))
	case 1:
		sec = int64(dsim.Choose(3)) - 1 // around the epoch
	case 2:
		sec = -int64(dsim.Choose(2_000_000_000)) // before 1970
	case 3:
		sec = int64(genUint(33))
	default:
		sec = int64(dsim.Choose(2_000_000_000))
	}
	var ns int64
	switch dsim.Choose(4) {
	case 0:
		ns = 0
	case 1:
		ns = int64(dsim.Choose(1000)) // sub-microsecond
	case 2:
		ns = 999_999_000 + int64(dsim.Choose(1000))
	default:
		ns = int64(dsim.Choose(1_000_000_000))
	}
	return time.Unix(sec, ns).UTC()
}

func floorMicro(t time.Time) int64 {
	// floor(t / 1us) computed from seconds and nanoseconds (nanoseconds are never negative)
	return t.Unix()*1_000_000 + int64(t.Nanosecond())/1000
}

func genEntry(withDialect bool) tlEntry {
	e := tlEntry{t: genTime()}
	v2 := dsim.Choose(2) == 0
	if dsim.Choose(8) == 7 {
		// unencodable entries
		switch dsim.Choose(3) {
		case 0:
			e.bad = "v1 frame with message id > 255"
			e.fr = &frame.V1Frame{SequenceNumber: genByte(), SystemID: genByte(), ComponentID: genByte(),
				Message: &message.MessageRaw{ID: 256 + uint32(dsim.Choose(1000)), Payload: genBytes(dsim.Choose(20))}}
		case 1:
			e.bad = "decoded message that no dialect can encode"
			if withDialect {
				e.fr = &frame.V2Frame{Message: &hd.MessageOddZero{Q: 7}, SequenceNumber: 1}
				e.bad = "decoded message whose id/type is not what the dialect registered"
				// MessageOddZero has id 0 like HEARTBEAT: the dialect would encode it as something else;
				// use an id that is absent instead
				e.fr = &frame.V2Frame{Message: &notInDialect{}, SequenceNumber: 1}
			} else {
				e.fr = &frame.V2Frame{Message: &hd.MessageVerifTag{Index: 1}, SequenceNumber: 1}
			}
		case 2:
			e.bad = "nil message"
			e.fr = &frame.V2Frame{SequenceNumber: genByte()}
		}
		count("fault:unencodable-entry")
		return e
	}
	if withDialect && dsim.Choose(2) == 0 {
		// a decoded message: the writer encodes it
		f, d, vals := genDialectFrame(v2)
		e.f, e.def, e.vals = f, d, vals
		fr := fromRef(f)
		msg := hd.FromValues(d, vals)
		switch x := fr.(type) {
		case *frame.V1Frame:
			x.Message = msg
		case *frame.V2Frame:
			x.Message = msg
		}
		e.fr = fr
		return e
	}
	signed := v2 && dsim.Choose(3) == 0
	e.f = genRawFrame(v2, signed)
	for withDialect && ref.DefByID(ref.HarnessDefs, e.f.MsgID) != nil {
		e.f.MsgID = (e.f.MsgID + 11) & 0xFF // raw frames stay outside the dialect
	}
	e.fr = fromRef(e.f)
	return e
}

type notInDialect struct{ A uint8 }

func (*notInDialect) GetID() uint32 { return 4242 }

func entryBytes(e tlEntry) []byte {
	us := floorMicro(e.t)
	b := make([]byte, 8)
	for i := 0; i < 8; i++ {
		b[i] = byte(uint64(us) >> (56 - 8*uint(i)))
	}
	return append(b, e.f.Encode()...)
}

func sameEntry(got *tlog.Entry, want tlEntry, withDialect bool) string {
	if got.Time.UnixNano() != floorMicro(want.t)*1000 && floorMicro(want.t) > -9_000_000_000_000_000 && floorMicro(want.t) < 9_000_000_000_000_000 {
		return fmt.Sprintf("time %v, want %v truncated to the microsecond", got.Time, want.t)
	}
	if got.Time.Unix() != floorDiv(floorMicro(want.t), 1_000_000) {
		return fmt.Sprintf("time %v (unix %d), want unix %d", got.Time, got.Time.Unix(), floorDiv(floorMicro(want.t), 1_000_000))
	}
	if want.def != nil && withDialect {
		h := headerRef(got.Frame)
		if h.V2 != want.f.V2 || h.Seq != want.f.Seq || h.Sys != want.f.Sys || h.Comp != want.f.Comp || h.MsgID != want.f.MsgID {
			return fmt.Sprintf("frame header %s, want %s", h, want.f)
		}
		if _, raw := got.Frame.GetMessage().(*message.MessageRaw); raw {
			return "dialect message read back undecoded"
		}
		if v := want.def.Canon(hd.ToValues(got.Frame.GetMessage()), want.f.V2); !ref.EqualValues(v, want.vals) {
			return fmt.Sprintf("message %v, want %v", v, want.vals)
		}
		return ""
	}
	g, err := toRef(got.Frame)
	if err != nil {
		return err.Error()
	}
	if !g.Equal(want.f) {
		return fmt.Sprintf("frame %s, want %s", g, want.f)
	}
	return ""
}

func floorDiv(a, b int64) int64 {
	q := a / b
	if (a%b != 0) && ((a < 0) != (b < 0)) {
		q--
	}
	return q
}

// readLog reads a (possibly cut) file with the real reader until maxCalls; it returns the entries
// obtained before the first error, the first error, and what happened afterwards.
func readLog(file []byte, withDialect bool, mode int) (entries []*tlog.Entry, firstErr error, laterEntries int, panicked any) {
	defer func() {
		if r := recover(); r != nil {
			panicked = r
		}
	}()
	cr := &chunkReader{data: file, mode: mode, err: io.EOF, errAt: len(file)}
	rd := &tlog.Reader{ByteReader: cr}
	if withDialect {
		rd.DialectRW = hd.NewRW()
	}
	if err := rd.Initialize(); err != nil {
		return nil, err, 0, nil
	}
	for calls := 0; calls < len(file)+8; calls++ {
		e, err := rd.Read()
		if err != nil {
			if firstErr == nil {
				firstErr = err
			}
			if errors.Is(err, io.EOF) || errors.Is(err, io.ErrUnexpectedEOF) {
				return
			}
			continue
		}
		if firstErr == nil {
			entries = append(entries, e)
		} else {
			laterEntries++
		}
	}
	return
}

func c20Body() func(h []dsim.Rec) {
	withDialect := dsim.Choose(2) == 1
	n := 1 + dsim.Choose(depth(8, 20))
	var entries []tlEntry
	for i := 0; i < n; i++ {
		entries = append(entries, genEntry(withDialect))
	}
	disk := &capWriter{failAt: -1}
	w := &tlog.Writer{ByteWriter: disk}
	if withDialect {
		w.DialectRW = hd.NewRW()
	}
	if err := w.Initialize(); err != nil {
		dsim.Failf("init", "%v", err)
		return nil
	}
	// ---- write phase: each successful Write appends exactly 8 big-endian timestamp bytes + the frame
	var good []tlEntry
	var bounds []int // file offset after each good entry
	for i, e := range entries {
		before := len(disk.all)
		err := w.Write(&tlog.Entry{Time: e.t, Frame: e.fr})
		if e.bad != "" {
			if err == nil {
				dsim.Failf("tlog-unencodable", "entry %d (%s) was accepted", i, e.bad)
				return nil
			}
			if len(disk.all) != before {
				dsim.Failf("tlog-unencodable", "entry %d (%s) was refused (%v) but left %d bytes in the file: %s", i, e.bad, err,
					len(disk.all)-before, hexs(disk.all[before:]))
				return nil
			}
			continue
		}
		if err != nil {
			dsim.Failf("tlog-format", "entry %d %s refused: %v", i, e.f, err)
			return nil
		}
		want := entryBytes(e)
		if string(disk.all[before:]) != string(want) {
			dsim.Failf("tlog-format", "entry %d at %v: file grew by %s, want %s", i, e.t, hexs(disk.all[before:]), hexs(want))
			return nil
		}
		good = append(good, e)
		bounds = append(bounds, len(disk.all))
	}
	file := disk.all
	dsim.Record("file", fmt.Sprintf("dialect=%v %x", withDialect, file), nil, int64(len(good)), int64(len(file)))

	// ---- whole file round trip under a drawn segmentation
	got, ferr, later, pan := readLog(file, withDialect, dsim.Choose(3))
	if pan != nil {
		dsim.Failf("tlog-roundtrip", "reader panicked: %v", pan)
		return nil
	}
	if len(got) != len(good) || later != 0 || !errors.Is(ferr, io.EOF) {
		dsim.Failf("tlog-roundtrip", "wrote %d entries, read %d (+%d after an error), final error %v", len(good), len(got), later, ferr)
		return nil
	}
	for i := range got {
		if d := sameEntry(got[i], good[i], withDialect); d != "" {
			dsim.Failf("tlog-roundtrip", "entry %d: %s", i, d)
			return nil
		}
	}

	// ---- crash: every cut offset
	cuts := 0
	for cut := 0; cut < len(file); cut++ {
		complete := 0
		for complete < len(bounds) && bounds[complete] <= cut {
			complete++
		}
		got, ferr, later, pan := readLog(file[:cut], withDialect, cut%3)
		cuts++
		if pan != nil {
			dsim.Failf("tlog-crash", "file cut at %d/%d: reader panicked: %v", cut, len(file), pan)
			return nil
		}
		if len(got) != complete {
			dsim.Failf("tlog-crash", "file cut at %d/%d: %d complete entries before the cut, reader returned %d before its first error (%v)",
				cut, len(file), complete, len(got), ferr)
			return nil
		}
		for i := range got {
			if d := sameEntry(got[i], good[i], withDialect); d != "" {
				dsim.Failf("tlog-crash", "file cut at %d: entry %d: %s", cut, i, d)
				return nil
			}
		}
		if ferr == nil {
			dsim.Failf("tlog-crash", "file cut at %d/%d: no error after the complete entries", cut, len(file))
			return nil
		}
		if later != 0 {
			dsim.Failf("tlog-after-error", "file cut at %d/%d: after its first error (%v) the reader returned %d fabricated entr(ies); file %s",
				cut, len(file), ferr, later, hexs(file[:cut]))
			return nil
		}
	}
	count("fault:crash-cut")

	// ---- disk errors: the k-th underlying Write fails after accepting j bytes, for every k and j
	faults := 0
	if len(good) > 0 {
		// count underlying writes of a clean pass
		probe := &capWriter{failAt: -1}
		pw := &tlog.Writer{ByteWriter: probe}
		if withDialect {
			pw.DialectRW = hd.NewRW()
		}
		pw.Initialize() //nolint
		for _, e := range good {
			pw.Write(&tlog.Entry{Time: e.t, Frame: e.fr}) //nolint
		}
		for k := 0; k < len(probe.writes); k++ {
			lens := []int{0, 1, len(probe.writes[k]) - 1}
			if len(probe.writes[k]) <= 12 {
				lens = lens[:0]
				for j := 0; j < len(probe.writes[k]); j++ {
					lens = append(lens, j)
				}
			}
			for _, j := range lens {
				if j < 0 {
					continue
				}
				fw := &capWriter{failAt: k, failLen: j, err: errInjected}
				tw := &tlog.Writer{ByteWriter: fw}
				if withDialect {
					tw.DialectRW = hd.NewRW()
				}
				tw.Initialize() //nolint
				reported := false
				for _, e := range good {
					if err := tw.Write(&tlog.Entry{Time: e.t, Frame: e.fr}); err != nil {
						if !errors.Is(err, errInjected) {
							dsim.Failf("tlog-write-error", "underlying write %d failed with the injected error, the caller got %v", k, err)
							return nil
						}
						reported = true
						break
					}
				}
				faults++
				if !reported {
					dsim.Failf("tlog-write-error", "underlying write %d failed after accepting %d bytes but no Write call reported an error", k, j)
					return nil
				}
			}
		}
		count("fault:disk-write-error")
	}
	dsim.Record("enumerated", "", nil, int64(cuts), int64(faults))
	return nil
}

func init() {
	register(&Prop{
		ID:       "C20",
		MaxSteps: 1000,
		Body:     c20Body,
		Rule: "one evaluation = one generated entry sequence (1..8 entries; v1/v2, signed, raw and dialect messages, times before/after " +
			"1970 and at sub-microsecond offsets, unencodable entries at drawn positions) written by the real tlog.Writer to a simulated " +
			"disk; then the file is read back whole, cut at EVERY byte offset (crash) and read by the real tlog.Reader, and rewritten with " +
			"the k-th underlying Write failing after j accepted bytes for every k and a set of j; distinct = distinct history digest; " +
			"non-trivial = at least one entry reached the file",
		Nontrivial: func(r *dsim.Result) bool {
			for _, rec := range r.History {
				if rec.Kind == "file" {
					return rec.I[0] >= 1
				}
			}
			return false
		},
		ProbeUniverse: []string{"fault:crash-cut", "fault:disk-write-error", "fault:unencodable-entry", "cov:time-beyond-int64-nanoseconds"},
		Real:          []string{"pkg/tlog (Writer, Reader)", "pkg/frame", "pkg/dialect", "pkg/message"},
		Stub:          []string{"disk (append-only file with short/failed writes, crash = byte-prefix)", "reference file format as oracle"},
	})
}
