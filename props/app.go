package props

import (
	"fmt"
	"time"

	"github.com/bluenviron/gomavlib/v3"
	"github.com/bluenviron/gomavlib/v3/pkg/frame"
	"github.com/bluenviron/gomavlib/v3/pkg/message"

	"verif/dsim"
	"verif/hd"
	"verif/ref"
)

// ---------------------------------------------------------------------------
// the application's event consumer

const (
	evOpen = iota
	evClose
	evFrame
	evParseErr
	evStreamReq
)

var evNames = [...]string{"open", "close", "frame", "parse-error", "stream-requested"}

type obs struct {
	step int
	t    time.Duration
	kind int
	ch   *gomavlib.Channel
	fr   frame.Frame
	err  error
	sys  byte
	comp byte
}

type consumer struct {
	e       *env
	events  []obs // owner: the consumer task
	ended   bool  // the range over Events() ended
	pace    int   // 0 fast, 1 slow, 2 bursty
	stopAt  int   // stop receiving after this many events (0 = never)
	stopped bool
	route   bool // forward every frame to all other channels
	edit    bool // edit the message and FixFrame before forwarding
	chanIdx map[*gomavlib.Channel]int
	onEvent func(o *obs)
}

func (c *consumer) run() {
	n := c.e.node
	c.chanIdx = map[*gomavlib.Channel]int{}
	for {
		if c.stopAt > 0 && len(c.events) >= c.stopAt {
			c.e.mu.Lock()
			c.stopped = true
			c.e.mu.Unlock()
			dsim.Record("consumer-stops", "", nil, int64(len(c.events)))
			return
		}
		evt, ok := dsim.Recv2("events", n.Events())
		dsim.EnsureReleased("consumer") // woken inside the receive: become the released task again
		if !ok {
			c.e.mu.Lock()
			c.ended = true
			c.e.mu.Unlock()
			dsim.Record("evt-end", "", nil)
			return
		}
		o := obs{step: dsim.Step(), t: c.e.now()}
		switch ev := evt.(type) {
		case *gomavlib.EventChannelOpen:
			o.kind, o.ch = evOpen, ev.Channel
			if _, seen := c.chanIdx[ev.Channel]; !seen {
				c.chanIdx[ev.Channel] = len(c.chanIdx)
			}
			c.e.mu.Lock()
			c.e.open = append(c.e.open, ev.Channel)
			c.e.mu.Unlock()
		case *gomavlib.EventChannelClose:
			o.kind, o.ch, o.err = evClose, ev.Channel, ev.Error
			c.e.mu.Lock()
			for i, ch := range c.e.open {
				if ch == ev.Channel {
					c.e.open = append(c.e.open[:i:i], c.e.open[i+1:]...)
					break
				}
			}
			c.e.mu.Unlock()
		case *gomavlib.EventFrame:
			o.kind, o.ch, o.fr = evFrame, ev.Channel, ev.Frame
			o.sys, o.comp = ev.SystemID(), ev.ComponentID()
		case *gomavlib.EventParseError:
			o.kind, o.ch, o.err = evParseErr, ev.Channel, ev.Error
		case *gomavlib.EventStreamRequested:
			o.kind, o.ch, o.sys, o.comp = evStreamReq, ev.Channel, ev.SystemID, ev.ComponentID
		default:
			dsim.Failf("event-type", "unknown event type %T", evt)
		}
		idx, known := c.chanIdx[o.ch]
		if !known {
			idx = -1
		}
		descr := ""
		if o.fr != nil {
			descr = fmt.Sprintf("sys=%d seq=%d id=%d", o.sys, o.fr.GetSequenceNumber(), o.fr.GetMessage().GetID())
		}
		if o.err != nil {
			descr = o.err.Error()
		}
		label := ""
		if o.ch != nil {
			label = o.ch.String()
		}
		dsim.Record("evt", fmt.Sprintf("%s ch%d(%s) %s", evNames[o.kind], idx, label, descr), nil, int64(o.kind), int64(idx))
		c.e.mu.Lock()
		c.events = append(c.events, o)
		pace := c.pace
		cb := c.onEvent
		c.e.mu.Unlock()
		if cb != nil {
			cb(&o)
		}
		if c.route && o.kind == evFrame {
			if c.edit {
				c.editAndFix(&o)
			}
			n.WriteFrameExcept(o.ch, o.fr) //nolint:errcheck
		}
		switch pace {
		case 1:
			dsim.EnsureReleased("consumer-pace")
			dsim.Sleep(time.Duration(1+dsim.Choose(300)) * time.Millisecond)
		case 2:
			dsim.EnsureReleased("consumer-pace")
			if dsim.Choose(8) == 0 {
				dsim.Sleep(time.Duration(1+dsim.Choose(3000)) * time.Millisecond)
			}
		case 3: // an application that now and then does not look at its events for a long time
			dsim.EnsureReleased("consumer-pace")
			if dsim.Choose(10) == 0 {
				dsim.Probe("cov:consumer-long-pause")
				dsim.Sleep(time.Duration(5+dsim.Choose(25)) * time.Second)
			}
		}
	}
}

// editAndFix changes the message of a received frame and asks the node to fix the frame, as
// the documented router idiom does.
func (c *consumer) editAndFix(o *obs) {
	if m, ok := o.fr.GetMessage().(*hd.MessageVerifTag); ok {
		m.Aux ^= 0x5A5A
		if err := c.e.node.FixFrame(o.fr); err != nil {
			dsim.Failf("fixframe", "FixFrame refused an edited VERIF_TAG: %v", err)
		}
	}
}

func (e *env) startConsumer(pace int, route bool) *consumer {
	c := &consumer{e: e, pace: pace, route: route}
	e.cons = c
	dsim.Go("consumer", c.run)
	return c
}

// state reports whether the consumer stopped by itself / saw the end of the event channel.
func (c *consumer) state() (stopped, ended bool) {
	c.e.mu.Lock()
	defer c.e.mu.Unlock()
	return c.stopped, c.ended
}

// snapshot copies the events observed so far.
func (c *consumer) snapshot() []obs {
	c.e.mu.Lock()
	defer c.e.mu.Unlock()
	return append([]obs(nil), c.events...)
}

func (e *env) openChannels() []*gomavlib.Channel {
	e.mu.Lock()
	defer e.mu.Unlock()
	return append([]*gomavlib.Channel(nil), e.open...)
}

// ---------------------------------------------------------------------------
// application writers

const (
	opMsgAll = iota
	opMsgTo
	opMsgExcept
	opFrameAll
	opFrameTo
	opFrameExcept
	numOps
)

var opNames = [...]string{"WriteMessageAll", "WriteMessageTo", "WriteMessageExcept", "WriteFrameAll", "WriteFrameTo", "WriteFrameExcept"}

type submit struct {
	w        int
	idx      uint32
	op       int
	target   *gomavlib.Channel
	special  string // "", "closed", "foreign", "nil"
	raw      bool   // the message was handed over already encoded
	fsys     byte   // header of a forwarded frame
	fcomp    byte
	fseq     byte
	fv2      bool // version of a forwarded frame (not always the node's)
	step0    int
	step1    int
	t0, t1   time.Duration
	err      error
	accepted bool
}

type writer struct {
	e         *env
	id        int
	subs      []submit // owner: the writer task
	done      bool
	inCall    bool
	calls     int
	foreignCh func() *gomavlib.Channel
	closedCh  func() *gomavlib.Channel
}

// writeOne issues one tagged write and logs it.
func (w *writer) writeOne(op int, target *gomavlib.Channel, special string, raw bool) {
	n := w.e.node
	idx := uint32(len(w.subs))
	s := submit{w: w.id, idx: idx, op: op, target: target, special: special, raw: raw, step0: dsim.Step(), t0: w.e.now()}
	v2 := w.e.cfg.version == 2
	var msg message.Message = tagMsg(byte(w.id), byte(op), idx, 0)
	if raw || !w.e.cfg.hasDialect() {
		s.raw = true
		msg = &message.MessageRaw{ID: ref.DefTag.ID, Payload: ref.DefTag.Encode(tagVals(byte(w.id), byte(op), idx, 0), v2)}
	}
	var fr frame.Frame
	if op >= opFrameAll {
		// a "forwarded" frame: its own header fields, filled by hand as the API demands
		s.fsys, s.fcomp, s.fseq = byte(200+w.id), byte(7+w.id), byte(idx*3)
		// a frame that came in over a link of the other protocol version is forwarded as it is
		fv2 := v2
		if dsim.Choose(4) == 0 {
			fv2 = !v2
		}
		s.fv2 = fv2
		if s.raw {
			msg = &message.MessageRaw{ID: ref.DefTag.ID, Payload: ref.DefTag.Encode(tagVals(byte(w.id), byte(op), idx, 0), fv2)}
		}
		f := &ref.Frame{V2: fv2, Seq: s.fseq, Sys: s.fsys, Comp: s.fcomp, MsgID: ref.DefTag.ID}
		f.Payload = ref.DefTag.Encode(tagVals(byte(w.id), byte(op), idx, 0), fv2)
		f.Checksum = f.ComputeChecksum(ref.DefTag.CRCExtra())
		fr = fromRef(f)
		if !s.raw {
			switch x := fr.(type) {
			case *frame.V1Frame:
				x.Message = msg
			case *frame.V2Frame:
				x.Message = msg
			}
		}
	}
	dsim.Record("submit", fmt.Sprintf("w%d #%d %s %s raw=%v", w.id, idx, opNames[op], special, s.raw), nil, int64(w.id), int64(idx), int64(op))
	func() {
		defer func() {
			if r := recover(); r != nil {
				dsim.Failf("write-panic", "%s panicked: %v", opNames[op], r)
			}
		}()
		switch op {
		case opMsgAll:
			s.err = n.WriteMessageAll(msg)
		case opMsgTo:
			s.err = n.WriteMessageTo(target, msg)
		case opMsgExcept:
			s.err = n.WriteMessageExcept(target, msg)
		case opFrameAll:
			s.err = n.WriteFrameAll(fr)
		case opFrameTo:
			s.err = n.WriteFrameTo(target, fr)
		case opFrameExcept:
			s.err = n.WriteFrameExcept(target, fr)
		}
	}()
	s.step1, s.t1 = dsim.Step(), w.e.now()
	s.accepted = s.err == nil
	w.subs = append(w.subs, s)
}
