#!/usr/bin/env python3
# Regenerates MANIFEST.json from the table below (kept as a script so that claims, levels and
# not_applicable reasons stay in one place).
import json
claimed = {
 "C01": ("exploration", "5/C01", "real frame.Writer/Reader/ReadWriter against the reference encoder/decoder over a simulated byte link: per-frame byte equality with the spec layout, field-for-field read-back under drawn segmentation, refusal of unrepresentable v1 frames with zero bytes emitted",
         "seeded sampling of the frame space with boundary bias (not enumeration); reference codec in /verif/ref trusted",
         "deterministic simulation: byte link with drawn segmentation, reference codec as the other end"),
 "C02": ("fault_enumeration", "5/C02", "every single-bit flip of each generated dialect frame is injected (enumerated) plus drawn substitutions, bursts and wrong-CRC_EXTRA repairs; delivery is predicted by the bitwise reference CRC; x25 is compared with the bitwise CRC under drawn splits",
         "frames are sampled; per frame the single-bit damage space is enumerated completely; harness dialect only",
         "deterministic simulation with fault injection: damaging link in front of the real reader"),
 "C05": ("exploration", "5/C05", "seeded search over byte streams x segmentations x injected transport errors against the real frame.Reader; oracles: totality, progress (<= n+1 calls), chunking independence, span = frame, resynchronisation on clean streams, delivered frames stay as delivered, a transport failure during a call is reported as itself (every offset for short streams)",
         "samples of an unbounded input/segmentation space",
         "deterministic simulation with fault injection: simulated transport (segmentation, zero-length reads, EOF, injected read error)"),
 "C06": ("fault_enumeration", "5/C06", "every single-bit alteration of a reference-signed frame (enumerated) and forged / unsigned / v1 / wrong-key / re-stamped / padded-after-signing frames, authentic frames with canonical and non-canonical payloads, through the real keyed reader with a reference SHA-256 verdict; signed output of streamwriter.Writer and frame.Writer.WriteMessage verified by the reference; a real node with an incoming key (any outgoing version) under the C10 event-stream oracles; node-level outgoing signing verified in the C09/C11 wire logs",
         "frames and keys are sampled; per frame the single-bit tampering space is enumerated completely",
         "deterministic simulation with fault injection: tampering link; fake clock for the writer side"),
 "C07": ("exploration", "5/C07", "timestamp histories (boundary alphabet, window edges, random 48-bit) of correctly signed frames through the real keyed reader, compared frame by frame with an executable replay-window model; outgoing timestamps checked against the fake clock (drawn start date, drawn pauses; in a third of the runs stalls at every scheduling point, clock reads included) for formula and monotonicity",
         "histories are sampled; clock steps backwards are not injected (the synctest clock is monotone)",
         "deterministic simulation: reordering/duplicating link as timestamp histories, executable reference model, fake clock"),
 "C10": ("exploration", "5/C10", "whole-system simulation of a real node with 1..3 (thorough: 5) endpoints of all seven kinds, scripted peers (valid / damaged frames, junk, chunking, FIN / RST / unplug, data handed over together with EOF, returning datagram peers, lossy datagram networks), consumer paces, concurrent writers, stream requests, short idle timeouts, node close; seeded search over schedules x chunkings x fault sequences; per-channel event-stream oracles (open first, close last, frames = valid frames sent, in order, attributed)",
         "samples of the schedule/fault space; simulated sockets/serial stand in for kernels",
         "deterministic simulation with fault injection: cooperative scheduler in a synctest bubble over an instrumented build"),
 "C20": ("fault_enumeration", "5/C20", "for each generated entry sequence: every cut offset of the file (crash) and every (failing write, accepted prefix) pair is enumerated against the real tlog.Writer/Reader; byte-exact file format against the reference; timestamps from year 1 to 9999",
         "entry sequences are sampled; per file the crash points are enumerated completely",
         "deterministic simulation with fault injection: simulated disk (short/failed writes, crash = byte prefix)"),
}
claimed.update({
 "C08": ("exploration", "5/C08", "relays of the real frame.Reader/Writer (1..4 hops, with/without dialect) and chains of 1..3 real router nodes (WriteFrameExcept idiom, optional edit + FixFrame with an outgoing key) carrying canonical and non-canonical encodings; per hop: header preserved, bytes identical without a dialect / for canonical payloads, otherwise reference-valid checksum and same decoded message",
         "frames are sampled; router chains use custom transports only",
         "deterministic simulation: byte links + whole-node chains under the cooperative scheduler, reference codec as oracle"),
 "C09": ("exploration", "5/C09", "write histories beyond the 256 wrap-around with rejected writes interleaved through streamwriter.Writer / frame.Writer.WriteMessage, the initialisation matrix, and whole-node runs (1..6 channels of all seven endpoint kinds, concurrent writers, heartbeats, stream requests, forwarded frames, flow control) with a per-link header/sequence checker over reference-decoded wire logs",
         "histories and schedules are sampled",
         "deterministic simulation: byte link histories + whole-node fan-out under the cooperative scheduler"),
 "C11": ("exploration", "5/C11", "whole-node simulation with 1..6 stable channels of all seven endpoint kinds + churning peers, a flaky custom link, 1..4 concurrent writers issuing the six Write* calls (stable, churning, closed, foreign (second real node) and nil targets), flow control; fan-out model over wire logs: exactly once, isolation, per-writer FIFO, whole frames, header provenance",
         "samples of the schedule space; flow control (<= 40 outstanding items per channel) is part of the scenario",
         "deterministic simulation: cooperative scheduler over an instrumented build, executable fan-out model"),
 "C12": ("exploration", "5/C12", "Close issued at a drawn instant of drawn situations over all 7 endpoint kinds (consumer running/stopped/never started, peers not reading, links unplugged while the writer is stuck, hanging/refused dials, failing and slow serial opens, disconnecting peers, concurrent writers through and after the close) and Initialize failing (or given a doubtful configuration) at a drawn endpoint; oracles: Close returns within max(write, read timeout)+1 s, no goroutine of the node still unstarted at the instant it returns (newborn-last scheduling in a third of the runs), no live node task afterwards, nothing bound/open, custom transport closed once, Events() closed, writes return",
         "samples of the schedule/fault/close-point space; leak detection relies on the engine knowing every goroutine the instrumented package starts and on the simulated network's bookkeeping",
         "deterministic simulation with fault injection: close-point sampling under the cooperative scheduler"),
 "C13": ("exploration", "5/C13", "sick channels (transport Write blocking forever / until a drawn instant / until the write deadline, failing once / permanently from the k-th call with a bare error or a non-timeout net.Error) and unencodable items at drawn positions; healthy channels flow-controlled and checked for exactly-once, failing channels for closed-or-delivering by write attempts, stalled channels for the 64+2+writers backlog bound, events from every channel",
         "samples of the fault/schedule space",
         "deterministic simulation with fault injection: write faults on simulated transports under the cooperative scheduler"),
 "C14": ("exploration", "5/C14", "fault plans of 2..5 sessions per endpoint kind (refused / hanging / failed attempts, EOF, RST, injected read error at the k-th read, silence with optional keep-alive at 0.9 idle periods or beginning in the middle of a frame); oracles: cause in the close event, first attempt immediate, >= 1 s between attempts and after the close event, one connection/channel at a time, fresh channel at quiescence, per-call deadlines from the transport log",
         "samples of the fault-sequence space; the reconnect delay is bounded (>= 1 s, fresh channel within 12 s), not mirrored from the code; custom and broadcast endpoints get no read faults (re-provide storm, see DESIGN.md)",
         "deterministic simulation with fault injection: read/connect faults on simulated transports, fake clock"),
 "C15": ("exploration", "5/C15", "the union of the node workloads plus close-while-opening, router and reuse workloads in a -race build under the same engine; the race detector is happens-before based and the engine's hand-offs are hidden from it, so unsynchronised access pairs are reported although execution is serialised",
         "samples of the schedule space; dynamic race detection only sees accesses that the workloads perform",
         "deterministic simulation under the Go race detector (engine invisible to it)"),
 "C16": ("exploration", "5/C16", "simulated minutes to hours on the fake clock with drawn heartbeat / dialect / stream-request configurations and arrival histories of ArduPilot and other heartbeats from several identities per channel (all seven endpoint kinds, several endpoints of one kind, senders sharing the node's system id); heartbeat instants exact in runs without stalls; stream-request model per (channel, system, component)",
         "samples of the configuration/history space; timing oracles are exact only without stall injection",
         "deterministic simulation on the fake clock with executable heartbeat and stream-request models"),
})
na = {
 "C03": "static fact per message definition (pure function of the definition): no schedule, clock, I/O or fault to simulate",
 "C04": "pure functions on byte slices (encode/decode round trip, aliasing): no schedule, clock, I/O or fault to simulate",
 "C17": "finite static enumeration over generated dialect sources: nothing to simulate",
 "C18": "translator correctness of the XML->Go generator: no nondeterminism a simulator can own",
 "C19": "pure function per enum type and value",
}
m = {
 "version": 1,
 "setup_cmd": "cd /verif && export GOFLAGS=-mod=mod GOPROXY=off GOSUMDB=off GOTOOLCHAIN=local && mkdir -p bin && go1.26.8 build -o bin/vcheck ./cmd/vcheck && ./bin/vcheck warm",
 "hooks": {
  "guard": "verif",
  "enable": "no file of /repo is changed: at check time cmd/vcheck instruments the current working tree of package gomavlib into a scratch directory and builds the worker with `go1.26.8 test -c -tags verif -overlay <scratch>/ov/overlay.json ./simtest` (module verif, replace github.com/bluenviron/gomavlib/v3 => /repo)",
  "baseline_off_cmd": "cd /repo && go test -vet=off -count=1 -timeout 25m ./...",
  "source_commits": [],
  "add_only": True,
 },
 "engines": [
  {"name": "dsim+instr", "path": "/verif/dsim, /verif/instr, /verif/world, /verif/props", "serves_properties": sorted(claimed),
   "kind_free_text": "cooperative deterministic scheduler inside a testing/synctest bubble (one seeded choice stream decides every interleaving, select order, map order, chunk size, delay and fault); source instrumenter producing a go build overlay from the current tree; simulated network, serial lines, pipes and disk; independent reference codec"},
 ],
 "checks": [],
 "not_applicable": [{"property_id": k, "reason": v} for k, v in sorted(na.items())],
 "notes": "Exit codes of every check: 0 held, 1 violation (VIOLATION line + replay file that reproduced in a fresh process), 2 infrastructure only (engine error, build failure, a failure that does not replay). known_findings.json lists open and fixed findings. DESIGN.md explains the approach.",
}
for p in sorted(claimed):
    cat, ref_, text, note, tech = claimed[p]
    m["checks"].append({
     "property_id": p, "quick_cmd": "./check %s quick" % p, "thorough_cmd": "./check %s thorough" % p,
     "evidence_file": "/verif/evidence/%s.json" % p, "replay_cmd_template": "./check replay {path}", "engine": "dsim+instr",
     "level_claimed": {"category": cat, "text": text, "design_ref": "DESIGN.md section " + ref_},
     "level_note": note, "technique": tech})
json.dump(m, open("/verif/MANIFEST.json", "w"), indent=1)
print("claimed:", sorted(claimed))
